import GoomVerif.Lemmas.C06L
import GoomVerif.Lemmas.C06HL
/-!
# C06 — method mocks replace exactly the named method, for every instance

Model: `Model/Method.lean` (names, caches, exact lookup over a symbol table that is a *parameter*, patch list).
All theorems quantify over every symbol table, every set of declared methods, every history of builder calls and
every receiver/argument value; nothing is proved by enumerating samples.

Trusted / observed, not proved (level: partial): that the Go linker names method code `pkg.T.m` / `pkg.(*T).m`
(`linkName`, compared with `go tool nm` of the probe binary on every run), reflect's method table, the compiler's
wrappers, shape bodies and devirtualisation, and that a jump written at an entry leaves the argument registers alone
(C01/C15).
-/
namespace C06
open Method C06L

/-! ## 1. names -/

/-- **Name construction is injective** in (package, type, pointer?, method) for Go identifiers: the type and
    method names contain no `.` and the type name does not start with `(` (the package path may contain anything).
    So `Get`/`GetX`/`get`, `T`/`T2`, `T`/`*T` and equal names in different packages never share a symbol. -/
theorem name_injective {pkg pkg' T T' m m' : Str} {p p' : Bool}
    (hT : '.' ∉ T) (hT' : '.' ∉ T') (hm : '.' ∉ m) (hm' : '.' ∉ m')
    (hp : T.head? ≠ some '(') (hp' : T'.head? ≠ some '(')
    (h : linkName pkg T p m = linkName pkg' T' p' m') : pkg = pkg' ∧ T = T' ∧ p = p' ∧ m = m' := by
  have h1 := objName_inj (recvName_nodot p hT) (recvName_nodot p' hT') hm hm' h
  have h2 := recvName_inj hp hp' h1.2.1
  exact ⟨h1.1, h2.1, h2.2, h1.2.2⟩

example : linkName "x/pa".toList "T".toList true "Get".toList = "x/pa.(*T).Get".toList := by decide

/-- inside one package the same holds for *any* receiver text that does not start with `(` — in particular for
    instantiated generic types `G[int]`, `G[go.shape.int]`, `G[x/y.T]`, whose names contain dots: two different
    instantiations or shapes never share a symbol -/
theorem name_injective_same_pkg {pkg T T' m m' : Str} {p p' : Bool}
    (hm : '.' ∉ m) (hm' : '.' ∉ m') (hp : T.head? ≠ some '(') (hp' : T'.head? ≠ some '(')
    (h : linkName pkg T p m = linkName pkg T' p' m') : T = T' ∧ p = p' ∧ m = m' := by
  have h1 := objName_inj_pkg hm hm' h
  have h2 := recvName_inj hp hp' h1.1
  exact ⟨h2.1, h2.2, h1.2⟩

/-- a method whose name merely extends (or differs in case from) another one has a different symbol -/
theorem prefix_sibling_distinct {pkg T m sfx : Str} {p : Bool} (hm : '.' ∉ m) (hs : '.' ∉ sfx) (hne : sfx ≠ []) :
    linkName pkg T p m ≠ linkName pkg T p (m ++ sfx) := by
  intro h
  have hms : '.' ∉ m ++ sfx := by simp [hm, hs]
  have := (objName_inj_pkg hm hms h).2
  have : m ++ [] = m ++ sfx := by simpa using this
  exact hne (List.append_cancel_left this).symm

example : linkName "p".toList "T".toList false "Get".toList ≠ linkName "p".toList "T".toList false "GetX".toList :=
  prefix_sibling_distinct (by decide) (by decide) (by decide)

/-- a path without characters the linker escapes is its own symbol prefix (`x/pa`, `github.com/a/b`; NOT `y.v2`) -/
theorem symPrefix_plain_example : symPrefix "github.com/tencent/goom/x/pa".toList = "github.com/tencent/goom/x/pa".toList ∧
    symPrefix "gopkg.in/yaml.v2".toList = "gopkg.in/yaml%2ev2".toList := by decide

/-- `Struct(inst).ExportMethod(m)` builds exactly the linker's name (typeName + bracket rule + objName), provided the
    type name contains no `*` (true for every identifier; NOT for a value instance of `G[*X]`, see level note) -/
theorem exportMethod_name_correct (t : Ty) (m : Str) (h : '*' ∉ t.name) :
    exportMethodName t m = linkName (symPrefix t.pkg) t.name t.ptr m := by
  simp [exportMethodName, linkName, bracket_typeName t.ptr h]

/-- `Pkg(pkg).ExportStruct("T" | "*T").Method(m)` builds exactly the linker's name (ExportStruct bracket rule) -/
theorem exportStruct_name_correct (pkg T m : Str) (p : Bool) (h : '*' ∉ T) :
    exportStructName pkg (typeName T p) m = linkName (symPrefix pkg) T p m := by
  simp [exportStructName, linkName, bracket_typeName p h]

/-! ## 2. lookup -/

/-- **exact-match lookup**: the entry found carries exactly the requested name, and no other name — a prefix-named
    sibling in particular — can be answered with the same entry -/
theorem lookup_exact (syms : List Str) (n : Str) (i : Nat) (h : symIndex syms n = some i) :
    syms[i]? = some n ∧ ∀ n', symIndex syms n' = some i → n' = n := by
  refine ⟨symIndex_get syms n i h, fun n' h' => ?_⟩
  have a := symIndex_get syms n i h
  have b := symIndex_get syms n' i h'
  rw [a] at b; exact (Option.some.inj b).symm

/-- a name that is not in the table is an error, never a near match -/
theorem lookup_absent (syms : List Str) (n : Str) (h : n ∉ syms) (s : BState) (k : Nat) :
    applyAt syms s k n = (s, .notfound n) := by
  simp [applyAt, symIndex_none_of_not_mem syms n h]

/-! ## 3. one mock: hit and frame -/

/-- **patch writes only at the looked-up entry**: a step changes what a call of `e` does only if the symbol the
    step names is exactly the one `e`'s calls enter; every other method, type and instantiation keeps its behaviour
    (the cache invariant is kept, so this composes over histories) -/
theorem step_frame (syms : List Str) (entries : List Entry) (s : BState) (k : Nat) (st : Step) (e : Entry)
    (hI : CacheInv s) (hr : st.isReset = false) (hne : stepName entries st ≠ some e.callSym) :
    behavOf syms (step syms entries s k st).1.patched e = behavOf syms s.patched e := by
  rw [(step_spec syms entries s k st e hI).2]
  simp [hr, hne]

/-- the named method is replaced (the symbol exists in the table) -/
theorem step_hit (syms : List Str) (entries : List Entry) (s : BState) (k : Nat) (st : Step) (e : Entry)
    (hI : CacheInv s) (hn : stepName entries st = some e.callSym) (hmem : e.callSym ∈ syms) :
    behavOf syms (step syms entries s k st).1.patched e = some k := by
  rw [(step_spec syms entries s k st e hI).2]
  have : st.isReset = false := by cases st <;> simp_all [Step.isReset, stepName]
  simp [this, hn, hmem]

/-- reflect resolution names the declared method when receiver kinds match (Go forbids declaring `T.m` and `(*T).m`
    together: `hu`) -/
theorem resolveSM_named (entries : List Entry) (e : Entry) (he : e ∈ entries) (hx : isExported e.m = true)
    (hu : ∀ a ∈ entries, ∀ b ∈ entries, a.pkg = b.pkg → a.name = b.name → a.m = b.m → a = b) :
    resolveSM entries ⟨e.pkg, e.name, e.ptr⟩ e.m = .ok e.callSym := by
  unfold resolveSM
  simp only [hx, Bool.not_true, Bool.false_eq_true, if_false]
  unfold methodOf
  cases hf : entries.find? (fun a => a.pkg = e.pkg ∧ a.name = e.name ∧ a.m = e.m ∧ (a.ptr = e.ptr ∨ (e.ptr = true ∧ a.ptr = false))) with
  | none =>
    have := List.find?_eq_none.1 hf e he
    simp at this
  | some a =>
    have hp := List.find?_some hf
    have ha := List.mem_of_find?_eq_some hf
    simp only [decide_eq_true_eq] at hp
    have : a = e := hu a ha e he hp.1 hp.2.1 hp.2.2.1
    subst this
    simp

/-! ## 4. histories -/

/-- **every history**: after any sequence of `Struct/ExportStruct … Apply` and `Reset` calls on one builder, a call
    of any declared method `e` runs the callback of the *last* step that named exactly `e`'s code (nothing if a
    `Reset` came later or no step named it).  Induction over the history; the builder caches are part of the state. -/
theorem run_last_writer (syms : List Str) (entries : List Entry) (e : Entry) :
    ∀ (steps : List Step) (s : BState) (k : Nat), CacheInv s →
      CacheInv (run syms entries s k steps).1 ∧
      behavOf syms (run syms entries s k steps).1.patched e =
        lastWriter syms entries e (behavOf syms s.patched e) k steps := by
  intro steps
  induction steps with
  | nil => intro s k hI; exact ⟨hI, rfl⟩
  | cons st rest ih =>
    intro s k hI
    have h1 := step_spec syms entries s k st e hI
    have h2 := ih (step syms entries s k st).1 (k + 1) h1.1
    simp only [run, lastWriter]
    rw [← h1.2]
    exact h2

theorem inv_init : CacheInv BState.init := by simp [CacheInv, BState.init]

/-- **isolation over histories**: a method that no step of the history names keeps its original behaviour,
    whatever else was mocked, re-mocked or reset on the same builder -/
theorem untouched_stays_original (syms : List Str) (entries : List Entry) (e : Entry) (steps : List Step)
    (h : ∀ st ∈ steps, stepName entries st ≠ some e.callSym) :
    behavOf syms (run syms entries BState.init 0 steps).1.patched e = none := by
  rw [(run_last_writer syms entries e steps BState.init 0 inv_init).2]
  have : ∀ (steps : List Step) (k : Nat), (∀ st ∈ steps, stepName entries st ≠ some e.callSym) →
      lastWriter syms entries e none k steps = none := by
    intro steps
    induction steps with
    | nil => intro k _; rfl
    | cons st rest ih =>
      intro k hh
      simp only [lastWriter]
      have h0 := hh st (by simp)
      have : (if st.isReset = true then none
              else if stepName entries st = some e.callSym ∧ e.callSym ∈ syms then some k else (none : Option Nat)) = none := by
        simp [h0]
      rw [this]
      exact ih (k + 1) (fun st' hs => hh st' (by simp [hs]))
  exact this steps 0 h

/-- **a single exported-method mock, end to end**: `Struct(inst of e's type).Method(e.m).Apply(cb0)` on a fresh
    builder replaces `e` and leaves every declared method with a different (package, receiver-or-shape, pointer?,
    method) tuple of the same package untouched — other methods incl. prefix-named ones, other types, and
    instantiations of a different shape -/
theorem single_mock_exact (syms : List Str) (entries : List Entry) (e e' : Entry)
    (he : e ∈ entries) (hx : isExported e.m = true) (hmem : e.callSym ∈ syms)
    (hu : ∀ a ∈ entries, ∀ b ∈ entries, a.pkg = b.pkg → a.name = b.name → a.m = b.m → a = b)
    (hpk : e'.pkg = e.pkg) (hm : '.' ∉ e.m) (hm' : '.' ∉ e'.m)
    (hp : (if e.shape.isEmpty then e.name else e.shape).head? ≠ some '(')
    (hp' : (if e'.shape.isEmpty then e'.name else e'.shape).head? ≠ some '(')
    (hdiff : ((if e'.shape.isEmpty then e'.name else e'.shape), e'.ptr, e'.m) ≠
             ((if e.shape.isEmpty then e.name else e.shape), e.ptr, e.m)) :
    let s := (run syms entries BState.init 0 [.structMethod ⟨e.pkg, e.name, e.ptr⟩ e.m]).1
    behavOf syms s.patched e = some 0 ∧ behavOf syms s.patched e' = none := by
  have hn : stepName entries (.structMethod ⟨e.pkg, e.name, e.ptr⟩ e.m) = some e.callSym := by
    simp [stepName, resolveSM_named entries e he hx hu]
  refine ⟨?_, ?_⟩
  · simpa [run] using step_hit syms entries BState.init 0 _ e inv_init hn hmem
  · have hne : stepName entries (.structMethod ⟨e.pkg, e.name, e.ptr⟩ e.m) ≠ some e'.callSym := by
      rw [hn]
      intro hc
      have hc := Option.some.inj hc
      unfold Entry.callSym at hc
      rw [hpk] at hc
      have := name_injective_same_pkg hm hm' hp hp' hc
      exact hdiff (by rw [this.1, this.2.1, this.2.2])
    have := step_frame syms entries BState.init 0 _ e' inv_init rfl hne
    simpa [run, BState.init, behavOf] using this

/-- FULL statement for the by-name path (kept visible; it is FALSE for instantiated generic types, see
    `Findings/C06F.lean` and KNOWN_FINDINGS C06-K1): `Struct(inst).ExportMethod(m)` replaces the declared method -/
def ByNameReplacesFull : Prop :=
  ∀ (syms : List Str) (e : Entry), '*' ∉ e.name → e.callSym ∈ syms →
    behavOf syms (run syms [e] BState.init 0 [.structExport ⟨e.pkg, e.name, e.ptr⟩ e.m]).1.patched e = some 0

/-- the by-name paths, across packages, with the excluded case as the explicit hypothesis `hg : e.shape = []`
    (ordinary, non-generic types): `ExportStruct` / `ExportMethod` name the declared method `e` and nothing else -/
theorem byname_mock_exact_partial (syms : List Str) (entries : List Entry) (e e' : Entry) (st : Step)
    (hst : st = .exportStruct e.pkg (typeName e.name e.ptr) e.m ∨ st = .structExport ⟨e.pkg, e.name, e.ptr⟩ e.m)
    (hg : e.shape = []) (hg' : e'.shape = []) (hstar : '*' ∉ e.name) (hmem : e.callSym ∈ syms)
    (hT : '.' ∉ e.name) (hT' : '.' ∉ e'.name) (hm : '.' ∉ e.m) (hm' : '.' ∉ e'.m)
    (hp : e.name.head? ≠ some '(') (hp' : e'.name.head? ≠ some '(')
    (hdiff : (symPrefix e'.pkg, e'.name, e'.ptr, e'.m) ≠ (symPrefix e.pkg, e.name, e.ptr, e.m)) :
    let s := (run syms entries BState.init 0 [st]).1
    behavOf syms s.patched e = some 0 ∧ behavOf syms s.patched e' = none := by
  have hcs : e.callSym = linkName (symPrefix e.pkg) e.name e.ptr e.m := by simp [Entry.callSym, hg]
  have hcs' : e'.callSym = linkName (symPrefix e'.pkg) e'.name e'.ptr e'.m := by simp [Entry.callSym, hg']
  have hn : stepName entries st = some e.callSym := by
    rcases hst with h | h <;> subst h
    · simp [stepName, hcs, exportStruct_name_correct _ _ _ _ hstar]
    · simp [stepName, hcs, exportMethod_name_correct ⟨e.pkg, e.name, e.ptr⟩ e.m hstar]
  have hr : st.isReset = false := by rcases hst with h | h <;> subst h <;> rfl
  refine ⟨?_, ?_⟩
  · simpa [run] using step_hit syms entries BState.init 0 st e inv_init hn hmem
  · have hne : stepName entries st ≠ some e'.callSym := by
      rw [hn, hcs, hcs']
      intro hc
      have := name_injective hT hT' hm hm' hp hp' (Option.some.inj hc)
      exact hdiff (by rw [this.1, this.2.1, this.2.2.1, this.2.2.2])
    have := step_frame syms entries BState.init 0 st e' inv_init hr hne
    simpa [run, BState.init, behavOf] using this

/-- the exported-method path across packages (ordinary types; answers "no method of another type" for the reflect
    path where `single_mock_exact` fixes the package): any declared method whose (symbol prefix of the package, type,
    pointer?, method) differs from the mocked one keeps its original behaviour.  *Partial*: `symPrefix` (the linker's
    escaping) is not proved injective, so the hypothesis speaks about the escaped package paths. -/
theorem single_mock_exact_any_pkg_partial (syms : List Str) (entries : List Entry) (e e' : Entry)
    (he : e ∈ entries) (hx : isExported e.m = true) (hmem : e.callSym ∈ syms)
    (hu : ∀ a ∈ entries, ∀ b ∈ entries, a.pkg = b.pkg → a.name = b.name → a.m = b.m → a = b)
    (hg : e.shape = []) (hg' : e'.shape = [])
    (hT : '.' ∉ e.name) (hT' : '.' ∉ e'.name) (hm : '.' ∉ e.m) (hm' : '.' ∉ e'.m)
    (hp : e.name.head? ≠ some '(') (hp' : e'.name.head? ≠ some '(')
    (hdiff : (symPrefix e'.pkg, e'.name, e'.ptr, e'.m) ≠ (symPrefix e.pkg, e.name, e.ptr, e.m)) :
    let s := (run syms entries BState.init 0 [.structMethod ⟨e.pkg, e.name, e.ptr⟩ e.m]).1
    behavOf syms s.patched e = some 0 ∧ behavOf syms s.patched e' = none := by
  have hcs : e.callSym = linkName (symPrefix e.pkg) e.name e.ptr e.m := by simp [Entry.callSym, hg]
  have hcs' : e'.callSym = linkName (symPrefix e'.pkg) e'.name e'.ptr e'.m := by simp [Entry.callSym, hg']
  have hn : stepName entries (.structMethod ⟨e.pkg, e.name, e.ptr⟩ e.m) = some e.callSym := by
    simp [stepName, resolveSM_named entries e he hx hu]
  refine ⟨?_, ?_⟩
  · simpa [run] using step_hit syms entries BState.init 0 _ e inv_init hn hmem
  · have hne : stepName entries (.structMethod ⟨e.pkg, e.name, e.ptr⟩ e.m) ≠ some e'.callSym := by
      rw [hn, hcs, hcs']
      intro hc
      have := name_injective hT hT' hm hm' hp hp' (Option.some.inj hc)
      exact hdiff (by rw [this.1, this.2.1, this.2.2.1, this.2.2.2])
    have := step_frame syms entries BState.init 0 _ e' inv_init rfl hne
    simpa [run, BState.init, behavOf] using this

/-! ## 5. receiver -/

/-- the adapter of `adaptToShapeFunc` removes exactly the word at the dictionary position, whatever stands before and
    behind it (functions: `pre = []`; methods: `pre = [receiver]`) -/
theorem adapt_drops_dictionary {A : Type} (pre post : List A) (d : A) :
    adapt pre.length (pre ++ d :: post) = pre ++ post := by
  simp [adapt]

/-- **receiver and arguments arrive exactly, for every instance — also for methods of instantiated generic types**:
    whenever `e` is mocked by callback `k`, a call on *any* receiver value with *any* arguments (and any dictionary, for a
    shape body) calls `k` with that receiver first and exactly those arguments behind it.  (Before fix 79126f8 the shape
    case delivered `recv :: dict :: args`.) -/
theorem receiver_and_args_exact {A : Type} (syms : List Str) (s : BState) (e : Entry) (k : Nat) (dict : A)
    (h : behavOf syms s.patched e = some k) (recv : A) (args : List A) :
    callObs syms s e dict recv args = .mock k (recv :: args) := by
  simp only [callObs, h, delivered, entryArgs]
  split
  · rfl
  · exact congrArg _ (adapt_drops_dictionary [recv] args dict)

theorem unmocked_runs_original {A : Type} (syms : List Str) (s : BState) (e : Entry) (dict : A)
    (h : behavOf syms s.patched e = none) (recv : A) (args : List A) :
    callObs syms s e dict recv args = .orig (recv :: args) := by
  simp [callObs, h]

/-! ## 6. kept handles: realistic multi-step use (`Model/MethodH.lean`, the model the driver runs)

The handle-level model adds what lies between a lookup and the patch: the per-struct method caches with their
`!Canceled()` test, the baseMocker state (`when`, `canceled`, guard), `Apply` / `Return` / `Returns` / `When..Return` /
`As(..).Return` / `Cancel` on kept handles, `Reset` as "cancel every cached mocker", and the call-time behaviour of the
`reflect.MakeFunc` stub. -/

/-- **isolation for every history of the handle-level model** (lookups through any API path, mocker objects made with the
    exported constructors and re-pointed at another method name with `Method(..)`, kept handles, Apply,
    Return, Returns, When, Cancel, re-arming after Cancel/Reset, Reset — in any order and number): a declared method whose
    code no lookup / constructor / `Method(..)` call of the history names is never patched; `N` is any list containing the
    names those steps name (`stepName`, from the step's text alone). -/
theorem handle_isolation (syms : List Str) (entries : List Entry) (e : Entry) (steps : List MethodH.Step) (N : List Str)
    (hN : ∀ st ∈ steps, ∀ n, MethodH.stepName entries st = some n → n ∈ N)
    (he : e.callSym ∉ N) :
    MethodH.behavOf syms (MethodH.run syms entries MethodH.HState.init 0 steps).1.patched e = none := by
  have h0 : C06HL.SInv syms N MethodH.HState.init := by
    refine ⟨⟨?_, ?_⟩, ⟨?_, ?_⟩⟩ <;> simp [MethodH.HState.init, MethodH.aget]
  have h := C06HL.run_inv (syms := syms) (N := N) entries steps MethodH.HState.init 0 hN h0
  exact C06HL.behavOf_none_of_NI e he _ _ h.2

/-- … and a call of such a method (on any instance: the model has no instance parameter to depend on) runs its
    original body and changes nothing -/
theorem handle_call_original (syms : List Str) (s : MethodH.HState) (e : Entry)
    (h : MethodH.behavOf syms s.patched e = none) : MethodH.call syms s e = (s, .orig) := by
  simp [MethodH.call, h]

/-- a method promoted from an embedded struct, called through the outer type's method set: when neither the
    compiler-generated wrapper nor the embedded type's method is patched, the original runs -/
theorem promoted_call_original (syms : List Str) (s : MethodH.HState) (e b : Entry)
    (h : MethodH.behavOf syms s.patched e = none) (hb : MethodH.behavOf syms s.patched b = none) :
    MethodH.callVia syms s e (some b) = (s, .orig) := by
  simp [MethodH.callVia, MethodH.call, h, hb]

/-- `h.Apply(cb k)` on a kept handle replaces exactly the code its mocker targets: the method named at lookup time
    now enters callback `k` — also when the handle was cancelled before (fix 50de3fa) or carried a When (fix 32dc3bc) -/
theorem handle_apply_hits (syms : List Str) (entries : List Entry) (s : MethodH.HState) (k h id i : Nat)
    (mk : MethodH.Mocker) (e : Entry)
    (hh : MethodH.aget s.handles h = some id) (hm : MethodH.aget s.mockers id = some mk)
    (hi : symIndex syms mk.target = some i) (he : e.callSym = mk.target) :
    (MethodH.step syms entries s k (.apply h)).2 = .ok ∧
    MethodH.behavOf syms (MethodH.step syms entries s k (.apply h)).1.patched e = some (.cb k) := by
  have hg := symIndex_get syms mk.target i hi
  simp [MethodH.step, MethodH.withMk, hh, hm, MethodH.applyCb, MethodH.applyMk, hi, MethodH.clearWhen,
    MethodH.aget, MethodH.setMk, MethodH.behavOf, hg, he]

/-- **the handle-level model refines the patch-level model**: on every history of one-shot steps (lookup + Apply,
    no Reset in between) its patch list, seen through `toOld`, and its answers are those of `Method.run` — so
    `run_last_writer`, `single_mock_exact`, `byname_mock_exact_partial` speak about the model the driver runs.
    (Reset: the patch-level model restores everything; the handle-level model cancels the cached mockers — that
    these coincide is C02's subject and is compared on every run.) -/
theorem oneshot_refines (syms : List Str) (entries : List Entry) (steps : List Step)
    (hr : ∀ st ∈ steps, st.isReset = false) :
    MethodH.toOld (MethodH.run syms entries MethodH.HState.init 0 (steps.map MethodH.embed)).1 =
      (run syms entries BState.init 0 steps).1 ∧
    (MethodH.run syms entries MethodH.HState.init 0 (steps.map MethodH.embed)).2 =
      (run syms entries BState.init 0 steps).2 := by
  have h0 : C06HL.RInv entries MethodH.HState.init := by
    refine ⟨⟨?_, ?_⟩, ?_⟩
    · simp [MethodH.HState.init]
    · simp [MethodH.HState.init]
    · intro key id hk; simp [MethodH.HState.init, MethodH.aget] at hk
  exact C06HL.run_sim syms entries steps MethodH.HState.init 0 hr h0

/-! ## 6b. guards created first, applied later (`Model/MethodG.lean`, the patch package used directly) -/

/-- **what `Apply` installs is fixed at creation**: in every history
    `pre ++ [g_h := InstanceMethod(T, m, cb)] ++ mid ++ [g_h.Apply()]` — whatever other guards are created, applied or
    unpatched in `mid`, as long as `h` itself is not re-created — the method named at creation enters the callback given
    at creation (number `pre.length`), not the one of a guard created later. -/
theorem guard_installs_creation_callback (syms : List Str) (entries : List Entry) (pre mid : List MethodG.GStep)
    (h : Nat) (t : Ty) (m : Str) (e : Entry)
    (hr : resolveSM entries t m = .ok e.callSym) (hmem : e.callSym ∈ syms)
    (hmid : ∀ st ∈ mid, st.binds h = false) :
    behavOf syms (MethodG.grun syms entries MethodG.GState.init 0
      (pre ++ ([MethodG.GStep.gnew h t m] ++ (mid ++ [MethodG.GStep.gapply h])))).1.patched e = some pre.length := by
  obtain ⟨i, hi⟩ := symIndex_of_mem syms e.callSym hmem
  have hg := symIndex_get syms e.callSym i hi
  rw [C06GL.grun_append, C06GL.grun_append, C06GL.grun_append]
  generalize (MethodG.grun syms entries MethodG.GState.init 0 pre).1 = s1
  simp only [Nat.zero_add, List.length_singleton]
  have h1 : MethodH.aget (MethodG.grun syms entries s1 pre.length [MethodG.GStep.gnew h t m]).1.guards h
      = some ⟨e.callSym, pre.length, false⟩ := by
    simp [MethodG.grun, MethodG.gstep, hr, hi, MethodH.aget]
  generalize (MethodG.grun syms entries s1 pre.length [MethodG.GStep.gnew h t m]).1 = s2 at h1 ⊢
  obtain ⟨g', hg', hn, hk⟩ := C06GL.grun_keeps syms entries mid s2 (pre.length + 1) h _ hmid h1
  generalize (MethodG.grun syms entries s2 (pre.length + 1) mid).1 = s3 at hg' ⊢
  simp only [] at hn hk
  simp only [MethodG.grun, MethodG.gstep, hg', hn, hi, behavOf, hg, hk, if_true]

/-! ## 6c. behind the wrapper of a generic method (`Model/InnerFn.lean`, `bytecode.GetInnerFunc`) -/

/-- **the code patched for a generic method is the target of the wrapper's first CALL that leaves the wrapper**, forward
    or backward, whatever (non-call, non-padding) instructions precede it and whatever follows it -/
theorem inner_is_first_call (pre rest : List InnerFn.Ins) (rel : Int) (hp : pre.all InnerFn.isFill = true)
    (h : rel ≥ 0 ∨ (InnerFn.codeLen pre : Int) + rel < 0) :
    InnerFn.inner (pre ++ InnerFn.Ins.call rel :: rest) = some ((InnerFn.codeLen pre : Int) + rel + 5) := by
  unfold InnerFn.inner
  rw [C06IL.go_fills pre hp]
  simp only [Nat.zero_add, InnerFn.go, Bool.false_eq_true, if_false]
  rcases h with h | h
  · simp [h]
  · have : ¬ rel ≥ 0 := by omega
    simp [this, h]

/-- a wrapper that reaches its padding (or the next function) without such a CALL is patched itself -/
theorem inner_none_without_call (pre rest : List InnerFn.Ins) (hp : pre.all InnerFn.isFill = true) :
    InnerFn.inner (pre ++ InnerFn.Ins.int3 :: InnerFn.Ins.fill 1 :: rest) = none ∧
    InnerFn.inner (pre ++ InnerFn.Ins.prologue :: rest) = none := by
  unfold InnerFn.inner
  rw [C06IL.go_fills pre hp, C06IL.go_fills pre hp]
  simp [InnerFn.go]

example : InnerFn.inner [.fill 4, .fill 7, .call (-300), .fill 3, .call 64] = some (-284) ∧
    InnerFn.inner [.fill 4, .call (-3), .fill 7, .call 64, .int3] = some (85) := by decide

/-! ## 7. the hypotheses are satisfiable / the statements are not vacuous -/

section Examples
def pa : Str := "x/pa".toList
def eGet : Entry := ⟨pa, "T".toList, false, "Get".toList, [], 0⟩
def eGetX : Entry := ⟨pa, "T".toList, false, "GetX".toList, [], 1⟩
def eSet : Entry := ⟨pa, "T".toList, true, "set".toList, [], 1⟩
def eT2 : Entry := ⟨pa, "T2".toList, false, "Get".toList, [], 0⟩
def eGi : Entry := ⟨pa, "G[int]".toList, true, "Get".toList, "G[go.shape.int]".toList, 0⟩
def eGs : Entry := ⟨pa, "G[string]".toList, true, "Get".toList, "G[go.shape.string]".toList, 0⟩
def eGiX : Entry := ⟨pa, "G[int]".toList, true, "GetX".toList, "G[go.shape.int]".toList, 1⟩
def exEntries : List Entry := [eGet, eGetX, eSet, eT2, eGi, eGs]
def exSyms : List Str := exEntries.map Entry.callSym ++ ["x/pa.(*G[int]).Get".toList]

/-- mock `T.Get`; then `(*T).set` by name; `T.GetX`, `T2.Get` and both instantiations stay original -/
example :
    let s := (run exSyms exEntries BState.init 0
      [.structMethod ⟨pa, "T".toList, false⟩ "Get".toList, .exportStruct pa "*T".toList "set".toList]).1
    exEntries.map (behavOf exSyms s.patched) = [some 0, none, some 1, none, none, none] := by decide

/-- a generic instantiation is patched at its shape body; the instantiation of another shape is untouched -/
example :
    let s := (run exSyms exEntries BState.init 0 [.structMethod ⟨pa, "G[int]".toList, true⟩ "Get".toList]).1
    exEntries.map (behavOf exSyms s.patched) = [none, none, none, none, some 0, none] := by decide

/-- a prefix of an existing name is an error, not a match; Reset restores -/
example :
    (run exSyms exEntries BState.init 0 [.exportStruct pa "T".toList "Ge".toList]).2 = [.notfound "x/pa.T.Ge".toList] ∧
    (run exSyms exEntries BState.init 0 [.structMethod ⟨pa, "T".toList, false⟩ "Get".toList, .reset]).1.patched = [] := by
  decide

/-- the hypotheses of `byname_mock_exact_partial` hold for `(*T).set` against `T.Get` -/
example : behavOf exSyms (run exSyms exEntries BState.init 0 [.exportStruct pa "*T".toList "set".toList]).1.patched eSet = some 0 ∧
          behavOf exSyms (run exSyms exEntries BState.init 0 [.exportStruct pa "*T".toList "set".toList]).1.patched eGet = none :=
  byname_mock_exact_partial exSyms exEntries eSet eGet _ (Or.inl rfl) rfl rfl (by decide) (by decide) (by decide) (by decide)
    (by decide) (by decide) (by decide) (by decide) (by decide)

/-- the hypotheses of `single_mock_exact` hold for `T.Get` against its prefix-named sibling `T.GetX` -/
example : behavOf exSyms (run exSyms exEntries BState.init 0 [.structMethod ⟨pa, "T".toList, false⟩ "Get".toList]).1.patched eGet = some 0 ∧
          behavOf exSyms (run exSyms exEntries BState.init 0 [.structMethod ⟨pa, "T".toList, false⟩ "Get".toList]).1.patched eGetX = none :=
  single_mock_exact exSyms exEntries eGet eGetX (by decide) (by decide) (by decide) (by decide) rfl (by decide) (by decide)
    (by decide) (by decide) (by decide)
/-- kept handle (seed-1 shape): Return, Cancel, Return again on the SAME handle → the stub answers the new value on every
    call; the prefix-named sibling is untouched; a by-name handle: As.Return → Apply → As.Return ends on the last value -/
example :
    let tGet : Ty := ⟨pa, "T".toList, false⟩
    let s := (MethodH.run exSyms exEntries MethodH.HState.init 0
      [.look 0 (.structMethod tGet "Get".toList), .ret 0 6, .cancel 0, .ret 0 7,
       .look 1 (.exportStruct pa "*T".toList "set".toList), .ret 1 8, .apply 1, .ret 1 9]).1
    (MethodH.call exSyms s eGet).2 = .val 7 ∧ (MethodH.call exSyms s eGetX).2 = .orig ∧
    (MethodH.call exSyms s eSet).2 = .val 9 := by decide

/-- the hypotheses of `handle_isolation` hold for that history and the never-named `T2.Get` -/
example :
    MethodH.behavOf exSyms (MethodH.run exSyms exEntries MethodH.HState.init 0
      [.look 0 (.structMethod ⟨pa, "T".toList, false⟩ "Get".toList), .ret 0 6, .cancel 0, .ret 0 7, .reset, .apply 0]).1.patched eT2 = none :=
  handle_isolation exSyms exEntries eT2 _ [eGet.callSym] (by decide) (by decide)
/-- two guards created, then both applied (round-4 seed shape): each method gets its own callback -/
example :
    let s := (MethodG.grun exSyms exEntries MethodG.GState.init 0
      [.gnew 0 ⟨pa, "T".toList, false⟩ "Get".toList, .gnew 1 ⟨pa, "T2".toList, false⟩ "Get".toList, .gapply 0, .gapply 1]).1
    exEntries.map (behavOf exSyms s.patched) = [some 0, none, none, some 1, none, none] := by decide

/-- the hypotheses of `guard_installs_creation_callback` hold with a guard for `T2.Get` created and applied in between -/
example : behavOf exSyms (MethodG.grun exSyms exEntries MethodG.GState.init 0
      ([] ++ ([MethodG.GStep.gnew 0 ⟨pa, "T".toList, false⟩ "Get".toList] ++
        ([.gnew 1 ⟨pa, "T2".toList, false⟩ "Get".toList, .gapply 1] ++ [MethodG.GStep.gapply 0])))).1.patched eGet = some 0 :=
  guard_installs_creation_callback exSyms exEntries [] _ 0 _ _ eGet
    (resolveSM_named exEntries eGet (by decide) (by decide) (by decide)) (by decide) (by decide)
/-- hypotheses of `single_mock_exact_any_pkg_partial`: `x/pa.T.Get` mocked, `y.v2.T.Get` (another package, escaped prefix) untouched -/
example :
    let eOther : Entry := ⟨"m/y.v2".toList, "T".toList, false, "Get".toList, [], 0⟩
    behavOf (exSyms ++ [eOther.callSym]) (run (exSyms ++ [eOther.callSym]) (exEntries ++ [eOther]) BState.init 0
      [.structMethod ⟨pa, "T".toList, false⟩ "Get".toList]).1.patched eOther = none :=
  (single_mock_exact_any_pkg_partial _ _ eGet _ (by decide) (by decide) (by decide) (by decide) rfl rfl (by decide) (by decide)
    (by decide) (by decide) (by decide) (by decide) (by decide)).2
/-- a method of an instantiated generic type: the shape body is entered with (receiver, dictionary, arguments), the
    callback is called with (receiver, arguments) -/
example : delivered eGiX 'D' 'R' ['a', 'b'] = ['R', 'a', 'b'] ∧ entryArgs eGiX 'D' 'R' ['a', 'b'] = ['R', 'D', 'a', 'b'] := by
  decide
end Examples

end C06
