import GoomVerif.Lemmas.C11L
/-!
# C11 — independent builders and concurrent callers are race-free and isolated

All theorems quantify over an arbitrary schedule `σ : List Tid` (one entry = one scheduler slot; a slot given to a
thread that waits for a held lock is a stutter step), over arbitrary thread programs `prog` (lists of the critical
sections the Go code has: `replaceFunc`, `Guard.Apply`, `Guard.UnpatchWithLock`, and lock-free `call`s) and over an
arbitrary layout (which pages a write touches, which placeholder belongs to a target, what the original computes).
`Conc.step` transcribes internal/patch/{patch.go,guard.go,monkey.go} and internal/bytecode/memory/{mwrite_amd64.go,
mwrite_unix.go}; the correspondence run ties it to the current source.
-/
namespace C11
open Conc

/-- the state the probe starts from: nothing patched, locks free, all pages r-x -/
abbrev start := init (fun _ => Content.pristine)

/-! The theorems below start from ANY quiet state `s0` (`Conc.Quiet`: no lock held, no thread inside a section, pages
    executable) — in particular from a state in which a steady builder has already mocked the functions the callers
    call.  `Disjoint prog` then speaks about the threads that run concurrently (builders + callers); the steady mocks
    live in `s0`, not in `prog`, so callers of MOCKED functions are inside the universe of every theorem.
    `quiet_start` instantiates them for the empty start state. -/

theorem quiet_start : Quiet start := quiet_init _

/-- **mutual exclusion of `patchesLock`** (patch.go:18): in every reachable state at most one thread is inside a
    `replaceFunc`/`Apply`/`UnpatchWithLock` section, and it is the lock holder. -/
theorem mutex_patchesLock (L prog) (s0 : St) (hq : Quiet s0) (σ : List Tid) (t u : Tid)
    (ht : ((run L prog σ s0).th t).cur.isSome = true) (hu : ((run L prog σ s0).th u).cur.isSome = true) : t = u := by
  have I := LInv_run L prog σ s0 (LInv_of_quiet prog hq)
  have a := I.mp t ht
  have b := I.mp u hu
  rw [a] at b; injection b

/-- **mutual exclusion of `memoryAccessLock`** (memory.go:12): at most one thread is inside the three-phase
    `WriteTo` script, and that thread also holds `patchesLock` — so thread A's final `mprotect(RX)` can never
    interleave with thread B's `copy`, even when both targets lie on one page. -/
theorem mutex_memoryLock (L prog) (s0 : St) (hq : Quiet s0) (σ : List Tid) (t u : Tid)
    (ht : ((run L prog σ s0).th t).w.isSome = true) (hu : ((run L prog σ s0).th u).w.isSome = true) :
    t = u ∧ (run L prog σ s0).lockP = some t := by
  have I := LInv_run L prog σ s0 (LInv_of_quiet prog hq)
  have a := (I.mm t ht).1
  have b := (I.mm u hu).1
  rw [a] at b; injection b with b
  exact ⟨b, I.mp t (I.mm t ht).2⟩

/-- **lockset**: every access of the model to the patch table / guards happens while the accessor holds
    `patchesLock`; every write of text bytes or page protections happens while it additionally holds
    `memoryAccessLock`; every read of text bytes happens while no other thread holds `memoryAccessLock`.
    (A statement about the model's enumeration of shared state; fields the model does not list are covered by the
    race detector only.) -/
theorem lockset (L prog) (s0 : St) (hq : Quiet s0) (σ : List Tid) :
    ∀ a ∈ (run L prog σ s0).acc, a.holdsP = true ∧ (a.v ≠ Var.patches → a.holdsM = true) :=
  (LInv_run L prog σ s0 (LInv_of_quiet prog hq)).accOk

/-- **x_always**: in every intermediate state of every interleaving every page is executable — WriteTo goes
    r-x → rwx → r-x and never through a state without x (mwrite_amd64.go:24,32).  The protections are DATA of the
    model's script (`Conc.wscript`: `permRWX`, `permRX`; a script containing a protection without x is expressible and
    would falsify this theorem — `Conc.wscript_x` is the lemma about the script); the source tie is the skeleton token
    `mprotect-RWX`/`mprotect-RX` (emitted only when the Go call text names PROT_EXEC) and the strace lane. -/
theorem x_always (L prog) (s0 : St) (hq : Quiet s0) (σ : List Tid) (pg : Nat) : ((run L prog σ s0).perm pg).x = true :=
  XInv_run L prog σ s0 hq.x pg

/-- **steady_calls**: start from ANY state `s0` with executable pages (e.g. after a steady builder has mocked `f`).
    Every call of a location `f` that no thread of the schedule writes (nor its placeholder) returns, in every
    interleaving, exactly what the code at `f` computes in `s0` — i.e. a steadily mocked function yields the mocked
    result, including a callback that calls the origin placeholder, while other goroutines patch and unpatch
    neighbouring functions on the same pages. -/
theorem steady_calls (L prog) (σ : List Tid) (s0 : St) (hx : ∀ pg, (s0.perm pg).x = true) (hc : s0.calls = [])
    (t ip : Nat) (res : Option Nat) (h : (t, ip, res) ∈ (run L prog σ s0).calls) :
    ∃ f a, (prog t)[ip]? = some (Sec.call f a) ∧
      ((∀ u, ¬ Writes L prog u f) → (∀ u, ¬ Writes L prog u (L.plh f)) → res = callAt L s0 f a) := by
  have I : CInv L prog s0 s0 := ⟨hx, fun _ _ => rfl, by simp [hc]⟩
  exact (CInv_run L prog σ s0 s0 hx I).calls _ h

/-- what "the mocked result" is: `Return(v)` → `v`; callback calling the placeholder → original + k -/
theorem callAt_ret (L : Layout) (s : St) (f a v : Nat) (hx : ∀ pg, (s.perm pg).x = true) (h : s.text f = .jump (.ret v)) :
    callAt L s f a = some v := by
  simp [callAt, allX_of_XInv s hx, h]

theorem callAt_cbo (L : Layout) (s : St) (f a k : Nat) (hx : ∀ pg, (s.perm pg).x = true) (h : s.text f = .jump (.cbo k))
    (ho : s.text (L.plh f) = .reloc f) : callAt L s f a = some (L.orig f a + k) := by
  simp [callAt, allX_of_XInv s hx, h, ho]

/-- **non-interference**: slots of other threads never change the patch-table entry or the text of a location that
    thread `t` mentions (targets it mocks, resets or calls, and their placeholders), provided nobody else writes what
    `t` mentions (`Disjoint`, the hypothesis of the property). "Each apply or reset affects its own targets only." -/
theorem others_frame (L prog) (hd : Disjoint L prog) (t : Tid) (σ : List Tid) (hσ : t ∉ σ) (s : St) (f : Loc)
    (hf : Mentions L prog t f) :
    (run L prog σ s).text f = s.text f ∧ (run L prog σ s).patches f = s.patches f :=
  others_frame_run L prog hd t σ hσ s f hf

/-- **nobody's target never changes**: a location that no thread of the system writes (a function that is not a target of
    any builder — e.g. a callee of a mocked function literal, or an unmocked neighbour on the same page) keeps its text
    and has no patch-table entry created, from any state, in every interleaving.  "Each apply or reset affects its own
    targets only", for the locations outside ALL target sets.  (That a Go target value denotes the location the probe
    says it does — function literals, generic instantiations of distinct GC shapes — is checked by the rounds: their
    callee `c11Ident` is called by other goroutines and must never change.) -/
theorem untargeted_unchanged (L prog) (σ : List Tid) (s : St) (f : Loc) (hf : ∀ u, ¬ Writes L prog u f) :
    (run L prog σ s).text f = s.text f ∧ (run L prog σ s).patches f = s.patches f :=
  nowriter_frame_run L prog σ s f hf

/-- **isolation**: for every schedule and every thread `t`, the patch-table entries and the text of all locations
    `t` mentions, and `t`'s own control state, are exactly those of a run in which ONLY `t` was scheduled (`solo`), for
    some number `n` of slots — i.e. the projection of any interleaved run on a thread's targets equals its sequential
    run; the other builders (and callers) are invisible to it.  The last conjunct: the RESULTS of all calls thread `t`
    made so far (the stream `B1=[…]` the differential run compares) are exactly those of its solo run. -/
theorem isolation (L prog) (hd : Disjoint L prog) (s0 : St) (hq : Quiet s0) (t : Tid) (σ : List Tid) :
    ∃ n, (run L prog σ s0).th t = (solo L prog t n s0).th t ∧
      (∀ f, Mentions L prog t f →
        (run L prog σ s0).text f = (solo L prog t n s0).text f ∧
        (run L prog σ s0).patches f = (solo L prog t n s0).patches f) ∧
      callsOf t (run L prog σ s0) = callsOf t (solo L prog t n s0) := by
  obtain ⟨n, h, hc⟩ := solo_sim_calls L prog hd t σ s0 s0 (Agree_of_quiet L prog t hq) rfl
  exact ⟨n, h.th, h.loc, hc⟩

/-- **quiescence transfers**: if every thread's own sequential run, once finished, leaves the locations it writes
    pristine (a schedule-free fact about each builder alone: it resets what it mocked — property C02; the driver
    evaluates it for every generated round; `Target` separates mocked functions from origin placeholders, whose bodies
    goom never restores), then in EVERY interleaving in which all threads have finished every
    written location is pristine and the state is quiet again (both locks free, nobody inside a section). -/
theorem quiescent_restored (L prog) (hd : Disjoint L prog) (s0 : St) (hq0 : Quiet s0) (Target : Loc → Prop)
    (hseq : ∀ t n, done prog (solo L prog t n s0) t → ∀ f, Target f → Writes L prog t f → (solo L prog t n s0).text f = .pristine)
    (σ : List Tid) (hq : ∀ t, done prog (run L prog σ s0) t) :
    (∀ t f, Target f → Writes L prog t f → (run L prog σ s0).text f = .pristine) ∧ Quiet (run L prog σ s0) := by
  have I := LInv_run L prog σ s0 (LInv_of_quiet prog hq0)
  refine ⟨?_, quiet_of_idle I (XInv_run L prog σ s0 hq0.x) (fun t => (hq t).2)⟩
  intro t f htg hw
  obtain ⟨n, hth, hloc, _⟩ := isolation L prog hd s0 hq0 t σ
  obtain ⟨sec, hsec, hf⟩ := hw
  have hm : Mentions L prog t f := ⟨sec, hsec, writes_sub_mentions L sec f hf⟩
  rw [(hloc f hm).1]
  refine hseq t n ?_ f htg ⟨sec, hsec, hf⟩
  have := hq t
  simp only [done] at this ⊢
  rw [← hth]; exact this

/-- **quiescence, unconditional for the generator's program class**: every thread is either a builder running
    `builderProg tg ops` — ANY sequence of builder operations (`mock` with Return / table / callback / callback calling
    the origin placeholder, re-stub of an already mocked target, `chk`, intermediate `reset`s, double resets) followed by
    `reset` and a final check (`builderProg_eq`: exactly what `ops ++ [reset, chk]` compiles to) — or a caller (only
    `call` sections); the start is ANY quiet state `s0` in which the sequential fact `JAt` holds (e.g. `start`, or the
    state after a steady builder's mocks: `JAt_after_solo`) and no thread has begun.  Then in EVERY interleaving in which
    all threads have finished, every location they wrote that is not an origin placeholder is pristine and the state is
    quiet again (both locks free).  The sequential hypothesis
    of `quiescent_restored` is discharged by `Conc.seq_restored` (an invariant over the micro steps of a solo run). -/
theorem quiescent_restored_builders (L prog) (hd : Disjoint L prog) (s0 : St) (hq0 : Quiet s0)
    (hj : JAt (fun f => ∀ g, L.plh g ≠ f) s0) (hip : ∀ t, (s0.th t).ip = 0)
    (hcls : ∀ t, (∃ tg ops, prog t = builderProg tg ops) ∨ (∀ sec ∈ prog t, ∃ f a, sec = Sec.call f a))
    (σ : List Tid) (hq : ∀ t, done prog (run L prog σ s0) t) :
    (∀ t f, (∀ g, L.plh g ≠ f) → Writes L prog t f → (run L prog σ s0).text f = .pristine) ∧ Quiet (run L prog σ s0) := by
  refine quiescent_restored L prog hd s0 hq0 (fun f => ∀ g, L.plh g ≠ f) ?_ σ hq
  intro t n hdone f hT hw
  rcases hcls t with ⟨tg, ops, hp⟩ | hc
  · refine seq_restored_from (Target := fun f => ∀ g, L.plh g ≠ f) (T := (compileOps tg ops []).length) (fun f g h => h g) ?_ ?_ hq0 hj
      (by rw [hip t]; exact Nat.zero_le _) n hdone f hT hw
    · intro i sec hi h; rw [hp] at h; exact builder_tail tg ops i sec hi h
    · intro f hT ⟨sec, hs, hf⟩
      have := builder_cover L tg ops f hT ⟨sec, hp ▸ hs, hf⟩
      rw [hp]; exact this
  · obtain ⟨sec, hs, hf⟩ := hw
    obtain ⟨g, a, rfl⟩ := hc sec hs
    simp [writesOf] at hf

/-- **phase 1 → the sequential fact**: after ANY builder program has run alone from a quiet state in which `JAt`
    holds (e.g. the steady builder's mocks from `start`), `JAt` holds again for every location that is not an origin
    placeholder: saved origin bytes are pristine, and a registered-but-unapplied patch sits on pristine text. -/
theorem JAt_after_solo (L : Layout) (prog : Tid → List Sec) (t : Tid) (s0 : St) (hq : Quiet s0)
    (hj : JAt (fun f => ∀ g, L.plh g ≠ f) s0) (hip : (s0.th t).ip ≤ (prog t).length) (n : Nat) :
    JAt (fun f => ∀ g, L.plh g ≠ f) (solo L prog t n s0) := by
  refine JAt_solo (T := (prog t).length) (fun f g h => h g) ?_ hq hj hip n
  intro i sec hi h
  rw [List.getElem?_eq_none hi] at h; cases h

/-- **the steady builder's targets are restored too** (three phases, the universe of the differential rounds):
    `s0` is any quiet state with the sequential fact (phase 1: the steady builder has mocked `fs`); phase 2 is ANY
    interleaving `σ` of a `Disjoint` system `prog2` of builders and callers in which nobody writes `fs` (callers may call
    them), run until all its threads are done; phase 3 is the steady builder `S` resetting: `fs.map unpatch` run alone.
    Then every function in `fs` is pristine. -/
theorem steady_targets_restored (L : Layout) (prog2 prog3 : Tid → List Sec) (s0 : St) (hq0 : Quiet s0)
    (hj : JAt (fun f => ∀ g, L.plh g ≠ f) s0) (σ : List Tid) (hq : ∀ t, done prog2 (run L prog2 σ s0) t)
    (S : Tid) (fs : List Loc) (hS : prog3 S = fs.map Sec.unpatch) (hnw : ∀ f ∈ fs, ∀ u, ¬ Writes L prog2 u f)
    (hip : ((run L prog2 σ s0).th S).ip = 0) (n : Nat)
    (hdone : done prog3 (solo L prog3 S n (run L prog2 σ s0)) S) :
    ∀ f ∈ fs, (∀ g, L.plh g ≠ f) → (solo L prog3 S n (run L prog2 σ s0)).text f = .pristine := by
  intro f hf hT
  have I := LInv_run L prog2 σ s0 (LInv_of_quiet prog2 hq0)
  have q1 : Quiet (run L prog2 σ s0) := quiet_of_idle I (XInv_run L prog2 σ s0 hq0.x) (fun t => (hq t).2)
  have j1 : JAt (fun f => f ∈ fs ∧ ∀ g, L.plh g ≠ f) (run L prog2 σ s0) := by
    intro g ⟨hg, hgT⟩
    have fr := nowriter_frame_run L prog2 σ s0 g (hnw g hg)
    rw [fr.1, fr.2]; exact hj g hgT
  refine seq_restored_from (L := L) (prog := prog3) (t := S) (Target := fun f => f ∈ fs ∧ ∀ g, L.plh g ≠ f) (T := 0)
    (fun f g h => h.2 g) ?_ ?_ q1 j1 (by rw [hip]; exact Nat.le_refl 0) n hdone f ⟨hf, hT⟩ ?_
  · intro i sec _ h
    rw [hS] at h
    have hm := List.mem_of_getElem? h
    simp only [List.mem_map] at hm
    obtain ⟨g, _, rfl⟩ := hm
    exact Or.inl ⟨g, rfl⟩
  · intro g ⟨hg, _⟩ _
    obtain ⟨j, hj', hje⟩ := List.getElem_of_mem hg
    exact ⟨j, Nat.zero_le _, by rw [hS]; simp [hj', hje]⟩
  · exact ⟨Sec.unpatch f, by rw [hS]; exact List.mem_map.2 ⟨f, hf, rfl⟩, by simp [writesOf]⟩

/-- the class is what the generator emits: a program ending in `reset ; chk` -/
theorem builderProg_is_generated (tg : List Loc) (ops : List BOp) :
    compileOps tg (ops ++ [BOp.reset, BOp.chk]) [] = builderProg tg ops := builderProg_eq tg ops

/-! ### what the single `copy` step abstracts -/

/-- byte view of a `WriteTo` that has stored its first `k` bytes -/
def mixed (old new : List (BitVec 8)) (k : Nat) : List (BitVec 8) := new.take k ++ old.drop k

/-- The model's `WStep.copy` replaces the content of a location in ONE step, i.e. it assumes that nobody can observe a
    partially written entry: this is the statement it would need at byte level, -/
def CopyIsAtomic (old new : List (BitVec 8)) : Prop := ∀ k, mixed old new k = old ∨ mixed old new k = new

/-- and it is FALSE for the bytes goom writes (a Go prologue overwritten by `NOP; MOVABS RDX,imm64; JMP [RDX]`): after
    one byte the entry is neither the original nor the jump.  So the absence of torn instruction fetch is NOT a theorem
    here. -/
theorem copy_is_not_atomic_at_byte_level :
    ¬ CopyIsAtomic [0x49, 0x3b, 0x66, 0x10, 0x76, 0x2a, 0x55, 0x48, 0x89, 0xe5, 0x48, 0x83, 0xec]
                   [0x90, 0x48, 0xba, 0x40, 0x1f, 0x4a, 0x00, 0x00, 0x00, 0x00, 0x00, 0xff, 0x22] := by
  intro h
  have := h 1
  revert this
  decide

/-- What the model does guarantee about those intermediate byte states: whenever ANY thread is anywhere inside the
    `WriteTo` script of a location (between taking and releasing `memoryAccessLock`, hence also between the first and the
    last byte store), no thread's current `call` reads that location — neither as the called function nor as its
    origin placeholder — provided targets are disjoint.  The threads of the model therefore never execute a torn entry;
    what remains outside the model (and is only stress-tested) is hardware-level fetch: speculative/prefetched
    instruction bytes of a neighbouring function on the same cache line, and cross-modifying-code visibility rules. -/
theorem write_excludes_calls (L prog) (hd : Disjoint L prog) (s0 : St) (hq : Quiet s0) (σ : List Tid) (u : Tid)
    (hu : ((run L prog σ s0).th u).w.isSome = true) :
    ∃ sec k wk, (prog u)[((run L prog σ s0).th u).ip]? = some sec ∧ ((run L prog σ s0).th u).cur = some k ∧
      (bodyOf sec)[k]? = some (MI.write wk) ∧
      ∀ t f a, (prog t)[((run L prog σ s0).th t).ip]? = some (Sec.call f a) → f ≠ wloc L wk ∧ L.plh f ≠ wloc L wk := by
  have I := LInv_run L prog σ s0 (LInv_of_quiet prog hq)
  obtain ⟨sec, k, wk, h1, h2, h3⟩ := I.wpos u hu
  refine ⟨sec, k, wk, h1, h2, h3, ?_⟩
  intro t f a ht
  by_cases e : t = u
  · subst e; rw [h1] at ht; injection ht with ht; subst ht; simp [bodyOf] at h3
  · have hw : Writes L prog u (wloc L wk) := ⟨sec, List.mem_of_getElem? h1, body_write_loc L sec k wk h3⟩
    have hm := hd t u (wloc L wk) e hw
    constructor
    · intro h; exact hm ⟨_, List.mem_of_getElem? ht, by simp [mentionsOf, h]⟩
    · intro h; exact hm ⟨_, List.mem_of_getElem? ht, by simp [mentionsOf, h]⟩

/-! ### the hypotheses are satisfiable by a non-trivial system -/

def exLayout : Layout := { plh := fun f => f + 1000, pages := fun l => [l / 4, l / 4 + 1], orig := fun f a => a * 7 + f }
/-- two builders on targets 1 and 2 (same page), one caller of the steady target 3 -/
def exProg : Tid → List Sec
  | 0 => [.replace 1 (.cbo 5) true, .apply 1, .call 1 3, .unpatch 1]
  | 1 => [.replace 2 (.ret 9) false, .apply 2, .unpatch 2]
  | 2 => [.call 3 4, .call 3 4]
  | _ => []

example : Disjoint exLayout exProg := by
  intro t u f htu ⟨s1, hs1, hw⟩ ⟨s2, hs2, hm⟩
  match t, u with
  | 0, 1 | 1, 0 | 0, 2 | 2, 0 | 1, 2 | 2, 1 =>
    simp only [exProg, List.mem_cons, List.not_mem_nil, or_false] at hs1 hs2
    rcases hs1 with rfl | rfl | rfl | rfl <;> rcases hs2 with rfl | rfl | rfl | rfl <;>
      simp only [writesOf, mentionsOf, exLayout, if_true, List.mem_cons, List.not_mem_nil, or_false, Bool.false_eq_true, if_false] at hw hm <;>
      first | (exfalso; exact hw) | (subst hw; simp at hm) | (rcases hw with rfl | rfl <;> simp at hm)
  | 0, 0 | 1, 1 | 2, 2 => exact htu rfl
  | t + 3, _ => simp [exProg] at hs2
  | 0, u + 3 | 1, u + 3 | 2, u + 3 => simp [exProg] at hs1

/-- the steady hypotheses of `steady_calls` hold for target 3 of the example system: nobody writes it or its placeholder -/
example : (∀ u, ¬ Writes exLayout exProg u 3) ∧ (∀ u, ¬ Writes exLayout exProg u (exLayout.plh 3)) := by
  refine ⟨?_, ?_⟩ <;> intro u ⟨sec, hs, hw⟩ <;>
  · match u with
    | 0 | 1 | 2 =>
      simp only [exProg, List.mem_cons, List.not_mem_nil, or_false] at hs
      rcases hs with rfl | rfl | rfl | rfl <;>
        simp only [writesOf, exLayout, if_true, List.mem_cons, List.not_mem_nil, or_false, Bool.false_eq_true, if_false] at hw <;>
        first | (exfalso; exact hw) | (rcases hw with hw | hw <;> simp at hw) | simp at hw
    | u + 3 => simp [exProg] at hs

/-- a quiet state in which a steady builder HAS mocked target 3 with `Return(9)`: the universe of the theorems above
    contains callers of mocked functions -/
def exMocked : St :=
  { start with patches := upd start.patches 3 (some { repl := .ret 9, originBytes := .pristine, applied := true }),
               text := upd start.text 3 (.jump (.ret 9)) }

example : Quiet exMocked ∧ JAt (fun f => ∀ g, exLayout.plh g ≠ f) exMocked := by
  refine ⟨by constructor <;> simp [exMocked, init, XInv, AccOk], ?_⟩
  intro f _
  by_cases h : f = 3
  · subst h; simp [exMocked, upd]
  · simp [exMocked, upd, h, init]

/-- in EVERY interleaving of the example builders and the caller, each call of the steadily mocked target 3 returns the
    mocked 9 (not the original 4*7+3) -/
example (σ : List Tid) (t ip : Nat) (res : Option Nat) (h : (t, ip, res) ∈ (run exLayout exProg σ exMocked).calls)
    (h3 : ∃ a, (exProg t)[ip]? = some (Sec.call 3 a)) : res = some 9 := by
  obtain ⟨f, a, hf, hres⟩ := steady_calls exLayout exProg σ exMocked (fun _ => rfl) rfl t ip res h
  obtain ⟨a', ha'⟩ := h3
  rw [ha'] at hf; injection hf with hf; injection hf with hf1 hf2; subst hf1
  have nw : (∀ u, ¬ Writes exLayout exProg u 3) ∧ (∀ u, ¬ Writes exLayout exProg u (exLayout.plh 3)) := by
    refine ⟨?_, ?_⟩ <;> intro u ⟨sec, hs, hw⟩ <;>
    · match u with
      | 0 | 1 | 2 =>
        simp only [exProg, List.mem_cons, List.not_mem_nil, or_false] at hs
        rcases hs with rfl | rfl | rfl | rfl <;>
          simp only [writesOf, exLayout, if_true, List.mem_cons, List.not_mem_nil, or_false, Bool.false_eq_true, if_false] at hw <;>
          first | (exfalso; exact hw) | (rcases hw with hw | hw <;> simp at hw) | simp at hw
      | u + 3 => simp [exProg] at hs
  rw [hres nw.1 nw.2]
  exact callAt_ret exLayout exMocked 3 a' 9 (fun _ => rfl) (by simp [exMocked, upd])

/-- `untargeted_unchanged` is not vacuous: in the example system location 3 (called by thread 2) is nobody's target,
    while its neighbours 1 and 2 on the same pages are patched and unpatched -/
example (σ : List Tid) : (run exLayout exProg σ exMocked).text 3 = .jump (.ret 9) := by
  have nw : ∀ u, ¬ Writes exLayout exProg u 3 := by
    intro u ⟨sec, hs, hw⟩
    match u with
    | 0 | 1 | 2 =>
      simp only [exProg, List.mem_cons, List.not_mem_nil, or_false] at hs
      rcases hs with rfl | rfl | rfl | rfl <;>
        simp only [writesOf, exLayout, if_true, List.mem_cons, List.not_mem_nil, or_false, Bool.false_eq_true, if_false] at hw <;>
        first | (exfalso; exact hw) | (rcases hw with hw | hw <;> simp at hw) | simp at hw
    | u + 3 => simp [exProg] at hs
  rw [(untargeted_unchanged exLayout exProg σ exMocked 3 nw).1]
  simp [exMocked, upd]

/-- a concrete interleaving with lock contention (thread 1 is scheduled while thread 0 holds the lock) -/
example : ((run exLayout exProg [0, 1, 0, 1, 0, 0, 0, 0, 1, 2, 0, 0, 0, 0, 0, 0, 0, 0, 0, 0, 0, 0, 0, 0, 0, 0, 0, 0, 0] start).calls.map (·.2.2))
    = [some (3 * 7 + 1 + 5), some (4 * 7 + 3)] := by decide

/-- the sequential hypothesis of `quiescent_restored` holds for the example builders (checked on their complete solo runs) -/
example : (solo exLayout exProg 0 40 start).text 1 = .pristine ∧ (solo exLayout exProg 1 40 start).text 2 = .pristine ∧
    done exProg (solo exLayout exProg 0 40 start) 0 ∧ (solo exLayout exProg 0 40 start).text 1001 = .reloc 1 := by
  refine ⟨by decide, by decide, ⟨by decide, by decide⟩, by decide⟩

/-- the class hypothesis of `quiescent_restored_builders` is met by generated programs (re-stub, origin, table, double reset) -/
example : builderProg [1, 2] [.mock 1 (.tab 5) false, .chk, .mock 2 (.cbo 7) true, .mock 1 (.cb 3) false, .reset, .reset, .mock 2 (.ret 4) false] =
    [.replace 1 (.tab 5) false, .apply 1, .call 1 3, .call 1 1, .call 2 3, .call 2 1, .replace 2 (.cbo 7) true, .apply 2, .replace 1 (.cb 3) false, .apply 1,
     .unpatch 1, .unpatch 2, .unpatch 1, .unpatch 2, .replace 2 (.ret 4) false, .apply 2, .unpatch 1, .unpatch 2, .call 1 3, .call 1 1, .call 2 3, .call 2 1] := by
  decide

end C11
