import GoomVerif.Lemmas.C10L
/-!
# C10 — symbol lookup by name yields the exact run-time address or an error

The theorems are about `Model/Sym.lean`, a transcription of `internal/unexports2` (ELF path), for **every**
executable-file content, every pair of tables, every name, every load bias in `BitVec 64` and every history of
`FindFuncByName` / `FindVarByName` / `ExposeFunction` calls in one process (`Sym.resAfter env pre op` is the result
of `op` when called after the arbitrary history `pre`).

What is assumed, not proved (level *partial*): the linker/loader.  `Loaded env T bF bV` says the file loads as the
table `T`, that the anchor function `…unexports2.FindFuncByName` is mapped at its table address plus `bF`, and the
anchor variable `…unexports2.stubVar` at its symbol value plus `bV`.  That *every other* function (data symbol) is
mapped with the same `bF` (`bV`) is the loader's contract — one bias per segment — so `table address + bF` is "the
run-time address of that symbol" in the statements below.  The correspondence run checks that contract, and the model
itself, against the running process in every link mode it builds.
-/
namespace C10
open Sym C10L

variable {N : Type} [DecidableEq N]

/-- The loader assumption.  For variables either the table has no ELF symbols at all (stripped: no variable can be
    found then, see `stripped_vars_error`) or the anchor variable is in it and is mapped at `value + bV`. -/
structure Loaded (env : Env N) (T : Table N) (bF bV : Addr) : Prop where
  load_ok : load env.file = .ok T
  anchorF : ∃ fa, lookup T.funcs env.anchorF = some fa ∧ env.memF = fa + bF
  anchorV : T.syms = [] ∨ ∃ va, lookup T.syms env.anchorV = some va ∧ env.memV = va + bV

/-! ## what is read from the file, and when that fails -/

omit [DecidableEq N] in
/-- `osReadSymbols` succeeds exactly when the file is ELF, has a `.text` and a readable `.gopclntab`; the function
    table is then the pclntab's entries at `text address + offset` (mod 2^64), the symbol list is the ELF symbol
    table or empty when there is none. -/
theorem load_ok_iff (f : File N) (T : Table N) :
    load f = .ok T ↔ f.openOk = true ∧ f.elfOk = true ∧ ∃ ts es, f.text = some ts ∧ f.pcln = some (some es) ∧
      T.funcs = es.map (fun e => (e.1, ts + e.2)) ∧ T.syms = addrSyms (f.symtab.getD []) := by
  cases T with
  | mk tf tsy =>
  unfold load
  cases f.openOk <;> simp
  cases f.elfOk <;> simp
  cases f.text <;> simp
  cases hp : f.pcln with
  | none => simp
  | some p =>
    cases p with
    | none => simp
    | some es =>
      cases f.symtab with
      | none => simp [addrSyms]; intro _; exact eq_comm
      | some ss => simp; constructor <;> (rintro ⟨h1, h2⟩; simp [h1, h2])

omit [DecidableEq N] in
/-- every way the table cannot be read is an error, and which one -/
theorem load_error_iff (f : File N) (e : Err) :
    load f = .error e ↔
      (f.openOk = false ∧ e = .open) ∨
      (f.openOk = true ∧ f.elfOk = false ∧ e = .elf) ∨
      (f.openOk = true ∧ f.elfOk = true ∧ f.text = none ∧ e = .noText) ∨
      (f.openOk = true ∧ f.elfOk = true ∧ f.text ≠ none ∧ f.pcln = none ∧ e = .noPcln) ∨
      (f.openOk = true ∧ f.elfOk = true ∧ f.text ≠ none ∧ f.pcln = some none ∧ e = .pclnData) := by
  unfold load
  cases f.openOk <;> simp
  · exact eq_comm
  cases f.elfOk <;> simp
  · exact eq_comm
  cases f.text <;> simp
  · exact eq_comm
  cases hp : f.pcln with
  | none => simp; exact eq_comm
  | some p =>
    cases p with
    | none => simp; exact eq_comm
    | some es => cases f.symtab <;> simp

/-- **unreadable → error**: when the table cannot be read (no `.gopclntab` section as in position-independent
    builds, no `.text`, not ELF, bad pclntab), every lookup of every kind, after any history, returns that error —
    never an address. -/
theorem unreadable_is_error (env : Env N) (e : Err) (h : load env.file = .error e)
    (pre : List (Op N)) (op : Op N) : resAfter env pre op = .err e := by
  rw [resAfter_eq]
  cases op <;> simp [spec, funcOf, varOf, funcIn, varIn, allFuncsIn, h, resOf]

/-- position-independent builds: the linker emits no section called `.gopclntab`; every lookup is an error -/
theorem pie_is_error (env : Env N) (ts : Addr) (h0 : env.file.openOk = true) (h1 : env.file.elfOk = true)
    (h2 : env.file.text = some ts) (h3 : env.file.pcln = none) (pre : List (Op N)) (op : Op N) :
    resAfter env pre op = .err .noPcln :=
  unreadable_is_error env .noPcln
    ((load_error_iff _ _).2 (Or.inr (Or.inr (Or.inr (Or.inl ⟨h0, h1, by simp [h2], h3, rfl⟩))))) pre op

/-- the process' own executable file cannot be opened (deleted, replaced by nothing, no permission): every lookup is
    that error — whatever `argv[0]` or any other file says, no table is consulted and no address is returned -/
theorem exe_gone_is_error (env : Env N) (h : env.file.openOk = false) (pre : List (Op N)) (op : Op N) :
    resAfter env pre op = .err .open :=
  unreadable_is_error env .open ((load_error_iff _ _).2 (Or.inl ⟨h, rfl⟩)) pre op

/-- stripped builds (no ELF symbol table): functions still resolve, every variable lookup is an error -/
theorem stripped_vars_error (env : Env N) (T : Table N) (h : load env.file = .ok T) (hs : env.file.symtab = none)
    (pre : List (Op N)) (n : N) : resAfter env pre (.findVar n) = .err .noVar := by
  rw [resAfter_eq]
  have : T.syms = [] := by
    have := ((load_ok_iff _ _).1 h).2
    obtain ⟨_, _, _, _, _, h5⟩ := this
    simp [h5, hs, addrSyms]
  simp [spec, varOf, varIn, h, this, lookup, resOf]

/-! ## the slide -/

theorem fAlign_is_bias {env : Env N} {T : Table N} {bF bV : Addr} (L : Loaded env T bF bV) : fAlignOf env = bF := by
  obtain ⟨fa, h1, h2⟩ := L.anchorF
  simp only [fAlignOf, funcOf, funcIn, L.load_ok, h1, h2, add_sub_cancel_left']

theorem vAlign_is_bias {env : Env N} {T : Table N} {bF bV : Addr} (L : Loaded env T bF bV)
    (va : Addr) (h1 : lookup T.syms env.anchorV = some va) (h2 : env.memV = va + bV) : vAlignOf env = bV := by
  obtain ⟨fa, hf1, _⟩ := L.anchorF
  simp only [vAlignOf, funcOf, varOf, funcIn, varIn, L.load_ok, hf1, h1, h2, add_sub_cancel_left']

/-! ## functions -/

/-- **found ↔ first entry with exactly that name, at its table address plus the bias** (any bias: PIE-style
    relocation, or `.text` not starting at `runtime.text` as with external linking).  Left to right this is
    "never some other symbol's address": an address only ever comes from an entry whose name equals the requested
    name as a whole string.  Right to left it is "every symbol present is found"; with duplicates the first wins. -/
theorem find_func_iff {env : Env N} {T : Table N} {bF bV : Addr} (L : Loaded env T bF bV)
    (pre : List (Op N)) (n : N) (a : Addr) :
    resAfter env pre (.findFunc n) = .ok a ↔
      ∃ p q fa, T.funcs = p ++ (n, fa) :: q ∧ (∀ e ∈ p, e.1 ≠ n) ∧ a = fa + bF := by
  rw [resAfter_eq]
  simp only [spec, funcOf, funcIn, L.load_ok, fAlign_is_bias L]
  cases hl : lookup T.funcs n with
  | none =>
    simp only [resOf]
    constructor
    · intro h; cases h
    · rintro ⟨p, q, fa, h1, h2, _⟩
      have := (lookup_some_iff T.funcs n fa).2 ⟨p, q, h1, h2⟩
      rw [hl] at this; cases this
  | some fa =>
    simp only [resOf, Res.ok.injEq]
    obtain ⟨p, q, h1, h2⟩ := (lookup_some_iff T.funcs n fa).1 hl
    constructor
    · intro h; exact ⟨p, q, fa, h1, h2, h.symm⟩
    · rintro ⟨p', q', fa', h1', h2', h3⟩
      have := (lookup_some_iff T.funcs n fa').2 ⟨p', q', h1', h2'⟩
      rw [hl] at this
      cases this
      exact h3.symm

/-- `ExposeFunction` resolves exactly like `FindFuncByName`, whatever was called before it -/
theorem expose_iff {env : Env N} {T : Table N} {bF bV : Addr} (L : Loaded env T bF bV)
    (pre : List (Op N)) (n : N) (a : Addr) :
    resAfter env pre (.expose n) = .ok a ↔
      ∃ p q fa, T.funcs = p ++ (n, fa) :: q ∧ (∀ e ∈ p, e.1 ≠ n) ∧ a = fa + bF := by
  rw [← find_func_iff L pre n a, resAfter_eq, resAfter_eq]
  rfl

/-- **present → found** under the uniqueness precondition: every function of the table is resolved to its own
    table address plus the bias -/
theorem present_func_found {env : Env N} {T : Table N} {bF bV : Addr} (L : Loaded env T bF bV)
    (huniq : (T.funcs.map Prod.fst).Nodup) (n : N) (fa : Addr) (hmem : (n, fa) ∈ T.funcs) (pre : List (Op N)) :
    resAfter env pre (.findFunc n) = .ok (fa + bF) := by
  have hl := lookup_of_mem_nodup T.funcs huniq (n, fa) hmem
  obtain ⟨p, q, h1, h2⟩ := (lookup_some_iff T.funcs n fa).1 hl
  exact (find_func_iff L pre n _).2 ⟨p, q, fa, h1, h2, rfl⟩

/-- **absent ↔ error**: a name that no entry carries (prefixes, near-misses, the empty name — anything not equal as a
    whole string) gives the "function symbol not found" error, and that error is given for no other reason -/
theorem absent_func_iff {env : Env N} {T : Table N} {bF bV : Addr} (L : Loaded env T bF bV)
    (pre : List (Op N)) (n : N) :
    resAfter env pre (.findFunc n) = .err .noFunc ↔ ∀ e ∈ T.funcs, e.1 ≠ n := by
  rw [resAfter_eq]
  simp only [spec, funcOf, funcIn, L.load_ok, ← lookup_none_iff]
  cases hl : lookup T.funcs n <;> simp [resOf]

/-! ## variables -/

/-- found ↔ first ELF symbol with exactly that name, at its value plus the data bias -/
theorem find_var_iff {env : Env N} {T : Table N} {bF bV : Addr} (L : Loaded env T bF bV)
    (pre : List (Op N)) (n : N) (a : Addr) :
    resAfter env pre (.findVar n) = .ok a ↔
      ∃ p q va, T.syms = p ++ (n, va) :: q ∧ (∀ e ∈ p, e.1 ≠ n) ∧ a = va + bV := by
  rw [resAfter_eq]
  rcases L.anchorV with hnil | ⟨va0, hv1, hv2⟩
  · simp only [spec, varOf, varIn, L.load_ok, hnil, lookup, resOf]
    constructor
    · intro h; cases h
    · rintro ⟨p, q, va, h1, _⟩; cases p <;> simp at h1
  · simp only [spec, varOf, varIn, L.load_ok, vAlign_is_bias L va0 hv1 hv2]
    cases hl : lookup T.syms n with
    | none =>
      simp only [resOf]
      constructor
      · intro h; cases h
      · rintro ⟨p, q, va, h1, h2, _⟩
        have := (lookup_some_iff T.syms n va).2 ⟨p, q, h1, h2⟩
        rw [hl] at this; cases this
    | some va =>
      simp only [resOf, Res.ok.injEq]
      obtain ⟨p, q, h1, h2⟩ := (lookup_some_iff T.syms n va).1 hl
      constructor
      · intro h; exact ⟨p, q, va, h1, h2, h.symm⟩
      · rintro ⟨p', q', va', h1', h2', h3⟩
        have := (lookup_some_iff T.syms n va').2 ⟨p', q', h1', h2'⟩
        rw [hl] at this
        cases this
        exact h3.symm

theorem present_var_found {env : Env N} {T : Table N} {bF bV : Addr} (L : Loaded env T bF bV)
    (huniq : (T.syms.map Prod.fst).Nodup) (n : N) (va : Addr) (hmem : (n, va) ∈ T.syms) (pre : List (Op N)) :
    resAfter env pre (.findVar n) = .ok (va + bV) := by
  have hl := lookup_of_mem_nodup T.syms huniq (n, va) hmem
  obtain ⟨p, q, h1, h2⟩ := (lookup_some_iff T.syms n va).1 hl
  exact (find_var_iff L pre n _).2 ⟨p, q, va, h1, h2, rfl⟩

theorem absent_var_iff {env : Env N} {T : Table N} {bF bV : Addr} (L : Loaded env T bF bV)
    (pre : List (Op N)) (n : N) :
    resAfter env pre (.findVar n) = .err .noVar ↔ ∀ e ∈ T.syms, e.1 ≠ n := by
  rw [resAfter_eq]
  simp only [spec, varOf, varIn, L.load_ok, ← lookup_none_iff]
  cases hl : lookup T.syms n <;> simp [resOf]

/-- **entries without an address are not variables**: a name carried only by symbol-table entries that do not name a place
    in the image (undefined references, FILE / SECTION markers, TLS offsets) gives the not-found error, never
    `st_value + slide` (which would be `0`, a TLS offset, …) -/
theorem non_address_symbol_is_error {env : Env N} {T : Table N} {bF bV : Addr} (L : Loaded env T bF bV)
    (ss : List (N × Addr × Bool)) (hss : env.file.symtab = some ss) (n : N)
    (hn : ∀ e ∈ ss, e.1 = n → e.2.2 = false) (pre : List (Op N)) :
    resAfter env pre (.findVar n) = .err .noVar := by
  rw [absent_var_iff L]
  obtain ⟨_, _, _, _, _, _, _, hsy⟩ := (load_ok_iff _ _).1 L.load_ok
  rw [hsy, hss]
  intro e he
  simp only [Option.getD_some, addrSyms, List.mem_filterMap] at he
  obtain ⟨x, hx, hxe⟩ := he
  by_cases hb : x.2.2 = true
  · simp only [hb, if_true, Option.some.injEq] at hxe
    intro hen
    have := hn x hx (by rw [← hen, ← hxe])
    rw [this] at hb; cases hb
  · simp [hb] at hxe

/-! ## the loader hypothesis, per symbol

`Loaded` fixes the two biases through the anchors only.  The clause of the property — *the exact run-time address of
that symbol, for every symbol* — needs more: that the loader maps EVERY function (data symbol) of the table with that
same bias.  It is stated here as an explicit hypothesis about a map `mem` from table addresses to run-time addresses;
it is not proved (it is the linker's and loader's contract) and it is what the sweep of the check measures on every
symbol against the runtime's own table and `&v`. -/

/-- review A1: found ⇔ the run-time address (`memF`) of the first entry with exactly that name, under the per-symbol
    loader hypothesis `hmem` -/
theorem find_func_runtime_address {env : Env N} {T : Table N} {bF bV : Addr} (L : Loaded env T bF bV)
    (memF : Addr → Addr) (hmem : ∀ e ∈ T.funcs, memF e.2 = e.2 + bF) (pre : List (Op N)) (n : N) (a : Addr) :
    resAfter env pre (.findFunc n) = .ok a ↔
      ∃ p q fa, T.funcs = p ++ (n, fa) :: q ∧ (∀ e ∈ p, e.1 ≠ n) ∧ a = memF fa := by
  rw [find_func_iff L]
  constructor <;> rintro ⟨p, q, fa, h1, h2, h3⟩ <;> refine ⟨p, q, fa, h1, h2, ?_⟩
  · rw [hmem (n, fa) (by rw [h1]; simp)]; exact h3
  · rw [hmem (n, fa) (by rw [h1]; simp)] at h3; exact h3

theorem find_var_runtime_address {env : Env N} {T : Table N} {bF bV : Addr} (L : Loaded env T bF bV)
    (memV : Addr → Addr) (hmem : ∀ e ∈ T.syms, memV e.2 = e.2 + bV) (pre : List (Op N)) (n : N) (a : Addr) :
    resAfter env pre (.findVar n) = .ok a ↔
      ∃ p q va, T.syms = p ++ (n, va) :: q ∧ (∀ e ∈ p, e.1 ≠ n) ∧ a = memV va := by
  rw [find_var_iff L]
  constructor <;> rintro ⟨p, q, va, h1, h2, h3⟩ <;> refine ⟨p, q, va, h1, h2, ?_⟩
  · rw [hmem (n, va) (by rw [h1]; simp)]; exact h3
  · rw [hmem (n, va) (by rw [h1]; simp)] at h3; exact h3

/-- review A6: what the code does when the table loads but the anchor function is not in it (a vendored copy under
    another import path): no slide at all — every function is answered with its bare table address, every variable with
    its bare symbol value.  Correct exactly when the image is not relocated; the code cannot tell. -/
theorem no_anchor_zero_slide (env : Env N) (T : Table N) (h : load env.file = .ok T)
    (hno : lookup T.funcs env.anchorF = none) (pre : List (Op N)) (n : N) :
    resAfter env pre (.findFunc n) = resOf (funcIn (.ok T) n) 0 ∧
    resAfter env pre (.findVar n) = resOf (varIn (.ok T) n) 0 := by
  rw [resAfter_eq, resAfter_eq]
  simp only [spec, funcOf, varOf, fAlignOf, vAlignOf, h, funcIn, hno, and_self]

/-! ## AllFunctions -/

/-- `AllFunctions()` answers with a set of exactly the distinct function names of the table, after any history.
    Together with `history_independent` (where `AllFunctions` calls may occur anywhere in the history) this is: listing
    the functions — and whatever the caller then does to the listing it was handed, which is a fresh value the package
    keeps no reference to — never changes what a later lookup returns. -/
theorem all_functions_spec {env : Env N} {T : Table N} {bF bV : Addr} (L : Loaded env T bF bV) (pre : List (Op N)) :
    resAfter env pre .allFuncs = .set (T.funcs.map Prod.fst).eraseDups.length := by
  rw [resAfter_eq]
  simp only [spec, allFuncsIn, L.load_ok]

/-! ## whole histories -/

/-- the result of a call does not depend on what was looked up before it in the same process (the cached table,
    the cached error and the once-only alignments never change an answer) -/
theorem history_independent (env : Env N) (pre pre' : List (Op N)) (op : Op N) :
    resAfter env pre op = resAfter env pre' op := by
  rw [resAfter_eq, resAfter_eq]

/-- every result of a whole history is the result of that call in a fresh process: the per-call theorems above
    therefore hold for each element of every run -/
theorem run_pointwise (env : Env N) (ops : List (Op N)) :
    (run env {} ops).2 = ops.map (fun op => resAfter env [] op) := by
  rw [(run_spec ops (inv_init env)).2]
  apply List.map_congr_left
  intro op _
  rw [resAfter_eq]

/-- **concurrent callers, interleavings of whole calls** (review B1: a call is atomic by the definition of
    `Sym.runSched`, so this is `run_pointwise` over every interleaving — it does not model a call overtaking another's
    initialisation; that is `sync.Once`'s contract, trusted, and what the concurrent lanes of the check test): whatever the goroutines are, whatever each of them calls and in whatever order the
    calls are scheduled (first lookups racing included), every call returns what it returns alone in a fresh process;
    so all per-call theorems hold for every call of every goroutine.  (Atomicity of a call with respect to the
    alignment state is `sync.Once`'s guarantee, see `Sym.runSched`; it is trusted, and observed by the concurrent
    lane of the check.) -/
theorem conc_any_schedule (env : Env N) (threads : List (List (Op N))) (sched : List Nat) :
    ∀ x ∈ runSched env {} threads sched, x.2 = resAfter env [] x.1 := by
  suffices h : ∀ (sched : List Nat) (s : St N) (threads : List (List (Op N))), Inv env s →
      ∀ x ∈ runSched env s threads sched, x.2 = spec env x.1 by
    intro x hx
    rw [resAfter_eq]
    exact h sched {} threads (inv_init env) x hx
  intro sched
  induction sched with
  | nil => intro s threads _ x hx; simp [runSched] at hx
  | cons t sched ih =>
    intro s threads hs x hx
    unfold runSched at hx
    split at hx
    · rename_i op rest _
      obtain ⟨h1, h2⟩ := step_spec hs op
      simp only [List.mem_cons] at hx
      rcases hx with rfl | hx
      · exact h2
      · exact ih _ _ h1 x hx
    · exact ih s threads hs x hx

/-! ## the hypotheses are satisfiable, non-trivially -/

section Examples

/-- a file with three functions (one name duplicated), two symbols, text at 0x401000 -/
def exFile : File String :=
  { elfOk := true, text := some 0x401000#64,
    pcln := some (some [("p.f", 0x0#64), ("u.FindFuncByName", 0x40#64), ("p.g", 0x80#64), ("p.f", 0xc0#64)]),
    symtab := some [("u.stubVar", 0x500000#64, true), ("p.c", 0x0#64, false), ("p.v", 0x500008#64, true), ("p.tls", 0x10#64, false)] }

/-- loaded with text bias 0x100 (as `-linkmode=external` does) and data bias 0xffff…f000 (wraps) -/
def exEnv : Env String :=
  { file := exFile, anchorF := "u.FindFuncByName", anchorV := "u.stubVar", memF := 0x401140#64, memV := 0x4ff000#64 }

def exTable : Table String :=
  { funcs := [("p.f", 0x401000#64), ("u.FindFuncByName", 0x401040#64), ("p.g", 0x401080#64), ("p.f", 0x4010c0#64)],
    syms := [("u.stubVar", 0x500000#64), ("p.v", 0x500008#64)] }

example : Loaded exEnv exTable 0x100#64 0xfffffffffffff000#64 :=
  ⟨by rfl, ⟨0x401040#64, by decide, by decide⟩, Or.inr ⟨0x500000#64, by decide, by decide⟩⟩

-- found: table address + bias; first of the duplicates wins; variables use the data bias
example : (run exEnv {} [.expose "p.g", .findFunc "p.g", .findFunc "p.f", .findVar "p.v"]).2 =
    [.ok 0x401180#64, .ok 0x401180#64, .ok 0x401100#64, .ok 0x4ff008#64] := by decide
-- near-misses and prefixes are errors, never a neighbour's address
example : (run exEnv {} [.findFunc "p.", .findFunc "p.ff", .findFunc "P.f", .findFunc "", .findVar "p.f", .findVar "p.v "]).2 =
    [.err .noFunc, .err .noFunc, .err .noFunc, .err .noFunc, .err .noVar, .err .noVar] := by decide
-- position independent build: no `.gopclntab` section
example : (run { exEnv with file := { exFile with pcln := none } } {} [.findFunc "p.g", .findVar "p.v", .expose "p.g"]).2 =
    [.err .noPcln, .err .noPcln, .err .noPcln] := by decide
-- the executable file is gone
example : (run { exEnv with file := { exFile with openOk := false } } {} [.findFunc "p.g", .findVar "p.v", .expose "p.g"]).2 =
    [.err .open, .err .open, .err .open] := by decide
-- three goroutines racing on their first lookups, one of the schedules
-- (executed: g2 findVar p.v, g0 expose p.g, g1 findFunc p.f, g0 findVar p.v, g2 findFunc "p.")
example : (runSched exEnv {} [[.expose "p.g", .findVar "p.v"], [.findFunc "p.f"], [.findVar "p.v", .findFunc "p."]]
      [2, 0, 1, 1, 0, 2, 2]).map Prod.snd =
    [.ok 0x4ff008#64, .ok 0x401180#64, .ok 0x401100#64, .ok 0x4ff008#64, .err .noFunc] := by decide
-- listing the functions between lookups changes nothing (3 distinct names among 4 entries)
example : (run exEnv {} [.allFuncs, .findFunc "p.g", .allFuncs, .expose "p.f", .findVar "p.v", .allFuncs]).2 =
    [.set 3, .ok 0x401180#64, .set 3, .ok 0x401100#64, .ok 0x4ff008#64, .set 3] := by decide
-- symbol-table entries without an address (an undefined reference, a TLS offset) are not found
example : (run exEnv {} [.findVar "p.c", .findVar "p.tls", .findVar "p.v"]).2 = [.err .noVar, .err .noVar, .ok 0x4ff008#64] := by decide
-- the per-symbol loader hypothesis of `find_func_runtime_address` is satisfiable: everything mapped 0x100 higher
example : ∀ e ∈ exTable.funcs, (fun a : Addr => a + 0x100#64) e.2 = e.2 + 0x100#64 := fun _ _ => rfl
-- no anchor in the table: bare table addresses
example : (run { exEnv with anchorF := "elsewhere.FindFuncByName" } {} [.findFunc "p.g", .findVar "p.v"]).2 =
    [.ok 0x401080#64, .ok 0x500008#64] := by decide
-- stripped build
example : (run { exEnv with file := { exFile with symtab := none } } {} [.findFunc "p.g", .findVar "p.v"]).2 =
    [.ok 0x401180#64, .err .noVar] := by decide

end Examples

end C10
