import GoomVerif.Model.Var
/-! # C08 (thin slice; replaced by the full development) -/
namespace C08
open Var

/-- a failed lookup changes nothing -/
theorem lookBad_noop (lg : Bool) (s : State) (p : Panic) : (step lg s (.lookBad p)).1 = s := rfl

end C08
