import GoomVerif.Lemmas.C08L
/-!
# C08 — variable mocks take effect for every type and restore the pre-mock value

All theorems are about `Var.step false` / `Var.run false`: the transcription of var.go, ue_var.go and
builder.go (`Var`, `UnExportedVar`, `Reset`) **with fix F8** (`fixes/F8.diff`).  They quantify over every type `Ty`
(any kind, named or not, any method set), every value incl. the nil interface and typed nils, every state reachable
under the discipline and every history (`List Op`) — by induction, nothing is enumerated.
The code as published is refuted in `Findings/C08F8.lean`.

`Good a s ops` (Lemmas/C08L): every `Set`/`Apply` of the history goes through the mocker its builder currently caches
for the variable while no *other* mocker holds a mock of the same variable (one builder, one way of addressing, no
handle that a later lookup has superseded), values handed to an unexported-variable mocker have the variable's type,
and the program does not itself assign variable `a` while `a` is un-mocked.  Lookups (incl. failing ones), Cancel,
Reset in any order, direct assignments to other variables and to `a` while mocked are unrestricted.
-/
namespace C08
open Var C08L

/-! ## restore: after any history, Cancel / Reset give back the value from before the first mock -/

/-- **Clause "after Cancel … the variable holds exactly the value it had before its first mock, however many times it
    was Set or Applied in between".**  From a state in which `a` is not mocked, run any good history (any number of
    Set/Apply, successful or not, re-lookups, operations on other variables, earlier Cancels/Resets …); then `Cancel`
    on the mocker that holds the mock (any mocker of `a` if none does) does not panic and leaves exactly the
    initial content. -/
theorem restore_first_cancel (s0 : State) (a : Nat) (ops : List Op) (i : Nat)
    (hI : Inv s0) (h0 : ∀ j, ¬ MockedAt s0 a j) (hG : Good a s0 ops)
    (hi : ∀ j, MockedAt (run false s0 ops) a j → j = i) (hia : ((run false s0 ops).mks i).addr = a) :
    (step false (run false s0 ops) (.cancel i)).2 = .ok ∧
    ((step false (run false s0 ops) (.cancel i)).1.mem a).cur = (s0.mem a).cur := by
  obtain ⟨hI1, hB1⟩ := run_inv_base a (s0.mem a).cur ops hI hG (Or.inr ⟨h0, rfl⟩)
  generalize run false s0 ops = s1 at *
  have hc := cancel_cases hI1 i
  refine ⟨hc.1, ?_⟩
  simp only [step]
  rcases hc.2 with ⟨hm, h⟩ | ⟨hm, h⟩
  · rw [h]
    rcases hB1 with ⟨j, hj, _⟩ | ⟨_, hcur⟩
    · have := hi j hj; subst this; rw [hj.1] at hm; cases hm
    · exact hcur
  · rw [h]
    rcases hB1 with ⟨j, hj, hjo⟩ | ⟨hnone, _⟩
    · have := hi j hj; subst this
      simp [upd, hia, hjo]
    · exact absurd ⟨hm, hia⟩ (hnone i)

/-- **Clause "after … Reset the variable holds exactly the value it had before its first mock in that builder".**
    `ord` is the order in which Go's map iteration visits the builder's cache — any order, any repetitions, as long
    as it contains the key under which the mocking mocker is cached. -/
theorem restore_first_reset (s0 : State) (a : Nat) (ops : List Op) (b : Nat) (ord : List (Bool × Nat))
    (hI : Inv s0) (h0 : ∀ j, ¬ MockedAt s0 a j) (hG : Good a s0 ops)
    (hb : ∀ j, MockedAt (run false s0 ops) a j →
      ((run false s0 ops).mks j).b = b ∧ (((run false s0 ops).mks j).ue, a) ∈ ord) :
    (step false (run false s0 ops) (.reset b ord)).2 = .ok ∧
    ((step false (run false s0 ops) (.reset b ord)).1.mem a).cur = (s0.mem a).cur := by
  obtain ⟨hI1, hB1⟩ := run_inv_base a (s0.mem a).cur ops hI hG (Or.inr ⟨h0, rfl⟩)
  generalize run false s0 ops = s1 at *
  obtain ⟨r1, _, r3, _, r5, r6, r7, _⟩ := resetGo_spec b ord hI1 _ rfl
  refine ⟨r1, ?_⟩
  simp only [step]
  rcases r3 a _ hB1 with ⟨k, hk, _⟩ | ⟨_, hcur⟩
  · exfalso
    have hks : MockedAt s1 a k := ⟨r6 k hk.1, by rw [← (r5 k).1]; exact hk.2⟩
    obtain ⟨hkb, hko⟩ := hb k hks
    have hc := hI1.cur k hks.1
    rw [hkb, hks.2] at hc
    have := r7 _ _ k hko hc
    rw [hk.1] at this; cases this
  · exact hcur

/-! ## restore, per mocker: "in that builder" when several builders mock the same variable -/

/-- **Clause "… the value it had before its first mock *in that builder*", when other builders (or other mockers)
    mock the same variable too.**  No discipline and no invariant: once mocker `i` holds a mock with saved value `x`
    (by `first_set_saves_current`, the content at its first successful Set), any history of lookups, Set/Apply/Cancel
    through ANY mockers — other builders' mockers of the same variable included —, direct assignments and `Pkg` calls
    that does not cancel `i` leaves `i` holding `x`, and `Cancel` through `i` then writes exactly `x` back.
    **Partial**: histories containing `Reset` of other builders are not covered (the full statement needs the cache
    well-formedness `Inv.cacheOK` to hold without the one-mocker discipline; with the discipline it is
    `restore_first_reset`). -/
theorem restore_own_first_partial (s : State) (i a : Nat) (x : Boxed) (ops : List Op)
    (h : Holds s i a x) (hk : ∀ op, op ∈ ops → KeepsMock i op) :
    Holds (run false s ops) i a x ∧
    ((step false (run false s ops) (.cancel i)).2 = .ok →
      ((step false (run false s ops) (.cancel i)).1.mem a).cur = x) := by
  have hrun : ∀ (l : List Op) (t : State), Holds t i a x → (∀ op, op ∈ l → KeepsMock i op) → Holds (run false t l) i a x := by
    intro l
    induction l with
    | nil => intro t ht _; exact ht
    | cons op rest ih =>
      intro t ht hl
      exact ih _ (step_holds t op i a x ht (hl op (List.mem_cons_self ..))) (fun o ho => hl o (List.mem_cons_of_mem _ ho))
  have hH := hrun ops s h hk
  refine ⟨hH, ?_⟩
  generalize run false s ops = s1 at hH
  obtain ⟨_, h2, h3, h4⟩ := hH
  simp only [step, cancel, Bool.false_eq_true, if_false, h2, if_true]
  cases ht : (s1.mks i).target with
  | none => intro hh; cases hh
  | some t =>
    simp only
    by_cases hty : t = (s1.mem (s1.mks i).addr).ty
    · simp [hty, rset, h3, h4]
    · simp [hty]

/-- the value a mocker saves at its first successful Set is the variable's content at that moment -/
theorem first_set_saves_current (s : State) (i : Nat) (v : Boxed) (hi : i < s.n) (hm : (s.mks i).mocked = false)
    (hok : (step false s (.set i v)).2 = .ok) :
    Holds (step false s (.set i v)).1 i (s.mks i).addr (s.mem (s.mks i).addr).cur := by
  simp only [step, setOp_eq] at hok ⊢
  have key : ∀ (t : State), t.mem = s.mem → t.n = s.n → (t.mks i).addr = (s.mks i).addr → (t.mks i).mocked = false →
      (doSet false t i v).2 = .ok → Holds (doSet false t i v).1 i (s.mks i).addr (s.mem (s.mks i).addr).cur := by
    intro t hmem hn haddr hmk hok
    rcases doSet_cases t i v with ⟨_, hne⟩ | ⟨p, hp, _⟩ | ⟨c, _, _, _, hs⟩
    · exact absurd hok hne
    · rw [hp] at hok; cases hok
    · rw [hs]; simp only [Holds, upd_same, hmk, Bool.false_eq_true, if_false, hn, haddr, hmem]
      exact ⟨hi, trivial, trivial, trivial⟩
  cases hu : (s.mks i).ue with
  | false => simp only [hu, Bool.false_eq_true, if_false] at hok ⊢; exact key s rfl rfl rfl hm hok
  | true =>
    simp only [hu, if_true] at hok ⊢
    cases v with
    | none => simp at hok
    | some y => exact key (retarget s i y.ty) rfl rfl (by simp [retarget]) (by simp [retarget, hm]) hok

/-! ## Cancel / Reset without a mock: no panic, nothing touched, idempotent -/

/-- **Clause "cancelling a variable mock that was never set leaves the variable untouched"** (and does not panic):
    for any state whatsoever, `Cancel` on a mocker that holds no mock — never set, every Set failed, or already
    cancelled — changes no variable. -/
theorem cancel_without_set_noop (s : State) (i : Nat) (h : (s.mks i).mocked = false) :
    (step false s (.cancel i)).2 = .ok ∧ (step false s (.cancel i)).1.mem = s.mem := by
  simp only [step, cancel_unmocked s i h]
  exact ⟨trivial, trivial⟩

/-- `Cancel` never panics (under the invariant every reachable state satisfies). -/
theorem cancel_never_panics (s : State) (hI : Inv s) (i : Nat) : (step false s (.cancel i)).2 = .ok :=
  (cancel_cases hI i).1

/-- `Reset` never panics, whatever the iteration order. -/
theorem reset_never_panics (s : State) (hI : Inv s) (b : Nat) (ord : List (Bool × Nat)) :
    (step false s (.reset b ord)).2 = .ok :=
  (resetGo_spec b ord hI _ rfl).1

/-- **"possibly twice": double Cancel.**  After a Cancel, a second Cancel of the same mocker touches nothing — even if
    the program assigned the variable in between (`mid` is any list of direct assignments). -/
theorem double_cancel (s : State) (hI : Inv s) (i : Nat) (mid : List (Nat × Boxed)) :
    let s1 := (step false s (.cancel i)).1
    let s2 := run false s1 (mid.map (fun w => Op.write w.1 w.2))
    (step false s2 (.cancel i)).2 = .ok ∧ (step false s2 (.cancel i)).1.mem = s2.mem := by
  intro s1 s2
  have h1 : (s1.mks i).mocked = false := (cancel_facts hI i _ rfl).2.2.2.2.1
  have h2 : ∀ (l : List (Nat × Boxed)) (t : State), (t.mks i).mocked = false →
      ((run false t (l.map (fun w => Op.write w.1 w.2))).mks i).mocked = false := by
    intro l
    induction l with
    | nil => intro t ht; exact ht
    | cons w rest ih => intro t ht; exact ih _ ht
  exact cancel_without_set_noop s2 i (h2 mid s1 h1)

/-- Reset of a builder none of whose cached mockers holds a mock touches nothing. -/
theorem reset_without_set_noop (b : Nat) (ord : List (Bool × Nat)) : ∀ (s : State),
    (∀ u c i, (u, c) ∈ ord → s.cache b u c = some i → (s.mks i).mocked = false) →
    (step false s (.reset b ord)).2 = .ok ∧ (step false s (.reset b ord)).1.mem = s.mem := by
  induction ord with
  | nil => intro s _; exact ⟨rfl, rfl⟩
  | cons k rest ih =>
    intro s h
    obtain ⟨u, c⟩ := k
    simp only [step] at ih ⊢
    cases hc : s.cache b u c with
    | none =>
      simp only [resetGo, hc]
      exact ih s (fun u' c' i hm => h u' c' i (List.mem_cons_of_mem _ hm))
    | some i =>
      have hm := h u c i (List.mem_cons_self ..) hc
      simp only [resetGo, hc, cancel_unmocked s i hm]
      have := ih { s with mks := upd s.mks i { (s.mks i) with canceled := true } } (by
        intro u' c' j hmem hcj
        have := h u' c' j (List.mem_cons_of_mem _ hmem) hcj
        by_cases hji : j = i
        · subst hji; simp [hm]
        · simp [upd, hji, this])
      exact this

/-- **"possibly twice": double Reset.**  A second Reset (same or another iteration order over the same keys) touches
    nothing. -/
theorem double_reset (s : State) (hI : Inv s) (b : Nat) (ord ord' : List (Bool × Nat))
    (hsub : ∀ k, k ∈ ord' → k ∈ ord) :
    let s1 := (step false s (.reset b ord)).1
    (step false s1 (.reset b ord')).2 = .ok ∧ (step false s1 (.reset b ord')).1.mem = s1.mem := by
  intro s1
  obtain ⟨_, _, _, r4, _, _, r7, _⟩ := resetGo_spec b ord hI _ rfl
  apply reset_without_set_noop
  intro u c i hm hc
  exact r7 u c i (hsub _ hm) (by rw [← r4]; exact hc)

/-! ## taking effect -/

/-- the content of a variable of type `t` after a value `x` was stored by reflect -/
def stored (t : Ty) (x : Val) : Boxed := if x.ty = t then some x else conv t (some x)

/-- **Clause "setting a mocked value makes every reader observe that value, for any variable type".**  Whenever `Set`
    reports success the variable itself (what a direct read and an accessor both load) holds the value — the very
    value when the types are identical, the converted value (dynamic type kept by an interface variable, the
    variable's own type otherwise) when they are merely assignable. -/
theorem readers_see_last_set (s : State) (i : Nat) (v : Boxed) (h : (step false s (.set i v)).2 = .ok) :
    ∃ x, v = some x ∧
      ((step false s (.set i v)).1.mem (s.mks i).addr).cur = stored (s.mem (s.mks i).addr).ty x ∧
      ((step false s (.set i v)).1.mem (s.mks i).addr).ty = (s.mem (s.mks i).addr).ty := by
  simp only [step, setOp_eq] at h ⊢
  have key : ∀ (t : State), t.mem = s.mem → (t.mks i).addr = (s.mks i).addr → (doSet false t i v).2 = .ok →
      ∃ x, v = some x ∧ ((doSet false t i v).1.mem (s.mks i).addr).cur = stored (s.mem (s.mks i).addr).ty x ∧
        ((doSet false t i v).1.mem (s.mks i).addr).ty = (s.mem (s.mks i).addr).ty := by
    intro t hmem haddr hok
    rcases doSet_cases t i v with ⟨_, hne⟩ | ⟨p, hp, _⟩ | ⟨c, _, _, hr, hs⟩
    · exact absurd hok hne
    · rw [hp] at hok; cases hok
    · rw [hs]; simp only [haddr, hmem] at hr ⊢
      cases v with
      | none => simp [valueOf, rset] at hr
      | some x =>
        refine ⟨x, rfl, ?_, by simp⟩
        simp only [valueOf, rset] at hr
        simp only [upd_same, stored]
        split at hr
        · next hty => rw [if_pos hty]; injection hr with hr; exact hr.symm
        · next hty =>
          rw [if_neg hty]
          split at hr
          · injection hr with hr; exact hr.symm
          · cases hr
  cases hu : (s.mks i).ue with
  | false => simp only [hu, Bool.false_eq_true, if_false] at h ⊢; exact key s rfl rfl h
  | true =>
    simp only [hu, if_true] at h ⊢
    cases v with
    | none => simp at h
    | some x => exact key (retarget s i x.ty) rfl (by simp [retarget]) h

/-- `Apply` is `Set` of the callback's single result (the callback runs once; every malformed callback panics before
    anything is touched). -/
theorem apply_is_set (s : State) (i : Nat) (cb : Cb) :
    (∃ v, cbResult cb = .ok v ∧ step false s (.apply i cb) = step false s (.set i v)) ∨
    (∃ p, cbResult cb = .error p ∧ step false s (.apply i cb) = (s, .panic p)) := by
  simp only [step, applyOp]
  cases hr : cbResult cb with
  | error p => right; exact ⟨p, rfl, rfl⟩
  | ok v => left; exact ⟨v, rfl, by simp⟩

/-- A `Set` that does not succeed (nil interface, non-assignable type, zero target …) leaves every variable untouched. -/
theorem failed_set_untouched (s : State) (i : Nat) (v : Boxed) (h : (step false s (.set i v)).2 ≠ .ok) :
    (step false s (.set i v)).1.mem = s.mem := by
  simp only [step, setOp_eq] at h ⊢
  have key : ∀ (t : State), t.mem = s.mem → (doSet false t i v).2 ≠ .ok → (doSet false t i v).1.mem = s.mem := by
    intro t hmem hne
    rcases doSet_cases t i v with ⟨hs, _⟩ | ⟨p, _, hs⟩ | ⟨c, hok, _⟩
    · rw [hs]; exact hmem
    · rw [hs]; exact hmem
    · exact absurd hok hne
  cases hu : (s.mks i).ue with
  | false => simp only [hu, Bool.false_eq_true, if_false] at h ⊢; exact key s rfl h
  | true =>
    simp only [hu, if_true] at h ⊢
    cases v with
    | none => rfl
    | some x => exact key (retarget s i x.ty) rfl h

/-! ## different variables are independent; re-lookup goes through the cache -/

/-- **Different variables are independent (mocker level).**  Set, Apply and Cancel through mocker `i` never change a
    variable other than `i`'s own; lookups (successful or failing) change no variable at all. -/
theorem other_variables_untouched (s : State) (op : Op) (a : Nat)
    (h : match op with
         | .set i _ | .apply i _ | .cancel i => a ≠ (s.mks i).addr
         | .look .. | .lookBad _ | .pkg .. => True
         | .write c _ => a ≠ c
         | .reset .. => False) :
    (step false s op).1.mem a = s.mem a := by
  have hd : ∀ (t : State) (i : Nat) (v : Boxed), a ≠ (t.mks i).addr → (doSet false t i v).1.mem a = t.mem a := by
    intro t i v hne
    rcases doSet_cases t i v with ⟨hs, _⟩ | ⟨p, _, hs⟩ | ⟨c, _, _, _, hs⟩
    · rw [hs]
    · rw [hs]
    · rw [hs]; simp [upd, hne]
  have hset : ∀ (i : Nat) (v : Boxed), a ≠ (s.mks i).addr → (setOp false s i v).1.mem a = s.mem a := by
    intro i v hne
    rw [setOp_eq]
    cases hu : (s.mks i).ue with
    | false => simp only [Bool.false_eq_true, if_false]; exact hd s i v hne
    | true =>
      simp only [if_true]
      cases v with
      | none => rfl
      | some x => exact hd (retarget s i x.ty) i _ (by simpa [retarget] using hne)
  cases op with
  | look b ue c =>
    simp only [step, look]
    cases s.cache b ue c with
    | none => rfl
    | some i => simp only; split <;> rfl
  | lookBad p => rfl
  | pkg b p => rfl
  | set i v => exact hset i v h
  | apply i cb =>
    simp only [step, applyOp]
    cases cbResult cb with
    | error p => rfl
    | ok v => simp only [Bool.false_eq_true, if_false]; exact hset i v h
  | cancel i =>
    simp only [step, cancel, Bool.false_eq_true, if_false]
    have h : a ≠ (s.mks i).addr := h
    split
    · split
      · rfl
      · split
        · rfl
        · split
          · rfl
          · simp [upd, h]
    · rfl
  | reset b ord => exact absurd h id
  | write c v =>
    have h : a ≠ c := h
    simp [step, upd, h]

/-- **Different variables are independent (builder level).**  `Reset` of builder `b` leaves untouched every variable
    that no mocker of `b` currently mocks — in particular variables mocked through another builder, and variables
    never mocked. -/
theorem reset_touches_only_own (s : State) (hI : Inv s) (b : Nat) (ord : List (Bool × Nat)) (a : Nat)
    (h : ∀ i, MockedAt s a i → (s.mks i).b ≠ b) :
    (step false s (.reset b ord)).1.mem a = s.mem a :=
  (resetGo_spec b ord hI _ rfl).2.2.2.2.2.2.2 a h

/-- **Re-lookup through the builder cache.**  `b.Var(&v)` / `b.UnExportedVar(name)` return the one mocker the builder
    ever created for that variable — whether it currently holds a mock, was cancelled, or was never set (fix F27) — and
    change nothing but the builder's package override, which they reset.  So a further `Set` keeps the saved origin, and
    no handle the caller kept is ever superseded. -/
theorem relookup_returns_same_mocker (s : State) (hI : Inv s) (i : Nat) (hi : i < s.n) :
    step false s (.look (s.mks i).b (s.mks i).ue (s.mks i).addr) =
      ({ s with ret := i, pkg := upd s.pkg (s.mks i).b 0 }, .ok) := by
  simp [step, look, hI.allCached i hi]

/-- **The cache key does not depend on `Builder.pkgName`.**  Whatever package overrides are pending — any sequence of
    `Pkg(p)` calls on any builders, in particular `b.Pkg(p).UnExportedVar(name)` — the lookup returns the variable's one
    mocker: no second mocker (whose saved origin would be the mock value) is created, no variable and no mocker
    changes. -/
theorem relookup_under_pkg_override (s : State) (hI : Inv s) (i : Nat) (hi : i < s.n)
    (pkgs : List (Nat × Nat)) :
    let s1 := run false s (pkgs.map (fun q => Op.pkg q.1 q.2))
    let r := step false s1 (.look (s.mks i).b (s.mks i).ue (s.mks i).addr)
    r.2 = .ok ∧ r.1.ret = i ∧ r.1.mem = s.mem ∧ r.1.mks = s.mks ∧ r.1.cache = s.cache ∧ r.1.n = s.n ∧
      r.1.pkg (s.mks i).b = 0 := by
  intro s1 r
  have h1 : ∀ (l : List (Nat × Nat)) (t : State),
      (run false t (l.map (fun q => Op.pkg q.1 q.2))).mem = t.mem ∧
      (run false t (l.map (fun q => Op.pkg q.1 q.2))).mks = t.mks ∧
      (run false t (l.map (fun q => Op.pkg q.1 q.2))).cache = t.cache ∧
      (run false t (l.map (fun q => Op.pkg q.1 q.2))).n = t.n := by
    intro l
    induction l with
    | nil => intro t; exact ⟨rfl, rfl, rfl, rfl⟩
    | cons q rest ih => intro t; exact ih _
  obtain ⟨e1, e2, e3, e4⟩ := h1 pkgs s
  have hc : s1.cache (s.mks i).b (s.mks i).ue (s.mks i).addr = some i := by
    show (run false s _).cache _ _ _ = _; rw [e3]; exact hI.allCached i hi
  simp only [r, step, look, hc]
  exact ⟨rfl, rfl, e1, e2, e3, e4, by simp⟩

/-- **A mocker that was never set holds no mock** (so `cancel_without_set_noop` applies to it): the mocker a first
    lookup creates is un-mocked and not cancelled. -/
theorem first_lookup_unmocked (s : State) (b : Nat) (ue : Bool) (c : Nat) (h : s.cache b ue c = none) :
    let s1 := (step false s (.look b ue c)).1
    s1.ret = s.n ∧ (s1.mks s1.ret).mocked = false ∧ (s1.mks s1.ret).canceled = false ∧ (s1.mks s1.ret).addr = c ∧
      s1.mem = s.mem := by
  simp [step, look, h]

/-! ## Set / Apply do succeed -/

/-- **Clause "setting a mocked value … for any variable type": a well-typed `Set` succeeds.**  In every reachable state,
    for every mocker the builder handed out: a value whose type is the variable's type, or (pointer-addressed
    variables) merely assignable to it — identical, implementing the interface, or identical underlying type with one
    side unnamed — is accepted; by `readers_see_last_set` the variable then holds it.  For `UnExportedVar` mockers the
    value must have the variable's own type (K-C08-ue-iface: impossible for interface-typed variables). -/
theorem set_succeeds (s : State) (hI : Inv s) (i : Nat) (hi : i < s.n) (x : Val)
    (hx : x.ty = (s.mem (s.mks i).addr).ty ∨
      ((s.mks i).ue = false ∧ assignable x.ty (s.mem (s.mks i).addr).ty = true)) :
    (step false s (.set i (some x))).2 = .ok := by
  have key : ∀ (t : State), t.mem = s.mem → (t.mks i).addr = (s.mks i).addr →
      (t.mks i).target = some (s.mem (s.mks i).addr).ty →
      (x.ty = (s.mem (s.mks i).addr).ty ∨ assignable x.ty (s.mem (s.mks i).addr).ty = true) →
      (doSet false t i (some x)).2 = .ok := by
    intro t hmem haddr htg hasg
    simp only [doSet, htg, hmem, haddr, valueOf, rset]
    simp only [ne_eq, not_true_eq_false, if_false]
    rcases hasg with h | h
    · simp [h]
    · by_cases hty : x.ty = (s.mem (s.mks i).addr).ty
      · simp [hty]
      · simp [hty, h]
  simp only [step, setOp_eq]
  cases hu : (s.mks i).ue with
  | false =>
    simp only [Bool.false_eq_true, if_false]
    refine key s rfl rfl (hI.ptrTyped i hi hu) ?_
    rcases hx with h | ⟨_, h⟩
    · exact Or.inl h
    · exact Or.inr h
  | true =>
    simp only [if_true]
    have hty : x.ty = (s.mem (s.mks i).addr).ty := by
      rcases hx with h | ⟨h, _⟩
      · exact h
      · rw [hu] at h; cases h
    exact key (retarget s i x.ty) rfl (by simp [retarget]) (by simp [retarget, hty]) (Or.inl hty)

/-- … and so does `Apply` with a callback that returns such a value. -/
theorem apply_succeeds (s : State) (hI : Inv s) (i : Nat) (hi : i < s.n) (x : Val)
    (hx : x.ty = (s.mem (s.mks i).addr).ty ∨
      ((s.mks i).ue = false ∧ assignable x.ty (s.mem (s.mks i).addr).ty = true)) :
    (step false s (.apply i (.ret (some x)))).2 = .ok := by
  have := set_succeeds s hI i hi x hx
  simpa [step, applyOp, cbResult] using this

/-- The invariant holds initially and is kept by every good history: the hypotheses `Inv` above are satisfiable by
    every state the API can reach. -/
theorem reachable_inv (mem : Nat → Cell) (a : Nat) (ops : List Op) (hG : Good a (init mem) ops) :
    Inv (run false (init mem) ops) :=
  (run_inv_base a (mem a).cur ops (init_inv mem) hG (Or.inr ⟨by simp [MockedAt, init], rfl⟩)).1

/-! ## the hypotheses are satisfiable by non-trivial states

An `int` variable holding 7 (address 0) and a nil `error` variable (address 1): look up, Set 1, look up again, Set 2;
and for the interface variable: look up, Set a `*T` error.  These histories meet every hypothesis of the restore
theorems, with a mock in place when Cancel/Reset is called. -/

def exInt : Ty := ⟨1, .int, true, 1, []⟩
def exErr : Ty := ⟨21, .iface, true, 21, [1]⟩
def exPErr : Ty := ⟨24, .ptr, false, 24, [1]⟩
def exMem : Nat → Cell := fun a => if a = 0 then ⟨exInt, some ⟨exInt, 7⟩⟩ else ⟨exErr, none⟩
def exOps : List Op :=
  [.look 0 false 0, .set 0 (some ⟨exInt, 1⟩), .look 0 false 0, .set 0 (some ⟨exInt, 2⟩),
   .look 0 false 1, .set 1 (some ⟨exPErr, 3⟩)]

theorem ex_good (a : Nat) : Good a (init exMem) exOps := by
  simp [Good, exOps, Disc, Owner, UeTyped, step, look, setOp, doSet, init, upd, exMem, rset, valueOf, MockedAt,
    exInt, exErr, exPErr, assignable, implements, Ty.isIface, conv]
  refine ⟨?_, ?_, ?_⟩ <;> intro j hj <;> by_cases h0 : j = 0 <;> simp_all

/-- the variables are mocked (hold 2 and the error) right before Cancel/Reset … -/
example : ((run false (init exMem) exOps).mem 0).cur = some ⟨exInt, 2⟩ ∧
    ((run false (init exMem) exOps).mem 1).cur = some ⟨exPErr, 3⟩ ∧
    MockedAt (run false (init exMem) exOps) 0 0 ∧ MockedAt (run false (init exMem) exOps) 1 1 := by
  simp [run, exOps, step, look, setOp, doSet, init, upd, exMem, rset, valueOf, MockedAt,
    exInt, exErr, exPErr, assignable, implements, Ty.isIface, conv]

/-- … and `restore_first_cancel` applies to both: 7 and the nil interface come back. -/
example : ((step false (run false (init exMem) exOps) (.cancel 0)).1.mem 0).cur = some ⟨exInt, 7⟩ ∧
    ((step false (run false (init exMem) exOps) (.cancel 1)).1.mem 1).cur = none := by
  constructor
  · refine (restore_first_cancel (init exMem) 0 exOps 0 (init_inv _) (by simp [MockedAt, init]) (ex_good 0) ?_ ?_).2
    · intro j
      simp [run, exOps, step, look, setOp, doSet, init, upd, exMem, rset, valueOf, MockedAt,
        exInt, exErr, exPErr, assignable, implements, Ty.isIface, conv]
      by_cases h0 : j = 0
      · simp [h0]
      · by_cases h1 : j = 1 <;> simp [h0, h1]
    · simp [run, exOps, step, look, setOp, doSet, init, upd, exMem, rset, valueOf,
        exInt, exErr, exPErr, assignable, implements, Ty.isIface, conv]
  · refine (restore_first_cancel (init exMem) 1 exOps 1 (init_inv _) (by simp [MockedAt, init]) (ex_good 1) ?_ ?_).2
    · intro j
      simp [run, exOps, step, look, setOp, doSet, init, upd, exMem, rset, valueOf, MockedAt,
        exInt, exErr, exPErr, assignable, implements, Ty.isIface, conv]
      by_cases h0 : j = 0
      · simp [h0]
      · by_cases h1 : j = 1 <;> simp [h0, h1]
    · simp [run, exOps, step, look, setOp, doSet, init, upd, exMem, rset, valueOf,
        exInt, exErr, exPErr, assignable, implements, Ty.isIface, conv]

/-- `set_succeeds` is not vacuous: in the reachable example state the error variable's mocker (pointer-addressed,
    interface type) accepts a `*T` error (assignable, not identical), and the int variable's mocker an int. -/
example : (step false (run false (init exMem) exOps) (.set 1 (some ⟨exPErr, 2⟩))).2 = .ok ∧
    (step false (run false (init exMem) exOps) (.set 0 (some ⟨exInt, 5⟩))).2 = .ok := by
  have hI := reachable_inv exMem 0 exOps (ex_good 0)
  constructor
  · refine set_succeeds _ hI 1 ?_ ⟨exPErr, 2⟩ (Or.inr ?_)
    · simp [run, exOps, step, look, setOp, doSet, init, upd, exMem, rset, valueOf,
        exInt, exErr, exPErr, assignable, implements, Ty.isIface, conv]
    · simp [run, exOps, step, look, setOp, doSet, init, upd, exMem, rset, valueOf,
        exInt, exErr, exPErr, assignable, implements, Ty.isIface, conv]
  · refine set_succeeds _ hI 0 ?_ ⟨exInt, 5⟩ (Or.inl ?_)
    · simp [run, exOps, step, look, setOp, doSet, init, upd, exMem, rset, valueOf,
        exInt, exErr, exPErr, assignable, implements, Ty.isIface, conv]
    · simp [run, exOps, step, look, setOp, doSet, init, upd, exMem, rset, valueOf,
        exInt, exErr, exPErr, assignable, implements, Ty.isIface, conv]

/-- `restore_own_first_partial` is not vacuous — two builders mock the same int variable (7): builder 0 sets 1, builder 1
    sets 2 (its mocker saved 1); builder 0's Cancel gives 7 back, and builder 1's own Cancel then gives back the 1 it
    saw before ITS first mock: each builder restores "the value it had before its first mock in that builder". -/
example :
    let ops : List Op := [.look 0 false 0, .set 0 (some ⟨exInt, 1⟩), .look 1 false 0, .set 1 (some ⟨exInt, 2⟩)]
    Holds (run false (init exMem) ops) 0 0 (some ⟨exInt, 7⟩) ∧ Holds (run false (init exMem) ops) 1 0 (some ⟨exInt, 1⟩) ∧
    ((step false (run false (init exMem) ops) (.cancel 0)).1.mem 0).cur = some ⟨exInt, 7⟩ ∧
    ((step false (run false (init exMem) (ops ++ [.cancel 0])) (.cancel 1)).1.mem 0).cur = some ⟨exInt, 1⟩ := by
  simp [Holds, run, step, look, setOp, doSet, cancel, init, upd, exMem, rset, valueOf, exInt]

end C08
