import GoomVerif.Model.Reject
namespace C13
open Reject

/-- walking the chain of the interface-argument error ends at `*erro.IllegalParam` (placeholder, replaced below) -/
theorem walk_iface_args (g w : Nat) : walk [.traceable, .illegalParam, .argsNotMatch g w] = some .illegalParam := rfl

end C13
