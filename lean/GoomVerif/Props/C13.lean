import GoomVerif.Lemmas.C13L
/-!
# C13 — configuration mistakes are rejected up front and leave nothing patched

All theorems are about `Model/Reject.lean` (a transcription of goom's validation points, tied to the real code by the
differential run of `checks/C13.py`).  They quantify over **every** signature (slot lists of any length), every
callback / value list, every origin placeholder, every function size and every prior state of the image and the
`patches` registry.
-/
namespace C13
open Reject C13L

/-! ## A. `SignatureEquals`: exactly the count-and-size relation, and the reported slot is the first offender -/

/-- signature.go:9 accepts **iff** both slot lists have pairwise equal sizes (which includes equal counts). -/
theorem signatureEquals_ok_iff (a b : Sig) :
    signatureEquals a b = .ok () ↔
      a.ins.map (·.size) = b.ins.map (·.size) ∧ a.outs.map (·.size) = b.outs.map (·.size) := by
  unfold signatureEquals
  by_cases h1 : a.ins.length = b.ins.length
  · by_cases h2 : a.outs.length = b.outs.length
    · have e1 := firstSizeMismatch_none_iff a.ins b.ins 0 h1
      have e2 := firstSizeMismatch_none_iff a.outs b.outs 0 h2
      simp only [h1, h2, ne_eq, not_true_eq_false, if_false]
      cases h3 : firstSizeMismatch a.ins b.ins 0 with
      | some i =>
        have : ¬ (a.ins.map (·.size) = b.ins.map (·.size)) := fun h => by simp [e1.2 h] at h3
        simp [rStr, rej, this]
      | none =>
        cases h4 : firstSizeMismatch a.outs b.outs 0 with
        | some i =>
          have : ¬ (a.outs.map (·.size) = b.outs.map (·.size)) := fun h => by simp [e2.2 h] at h4
          simp [rStr, rej, this]
        | none => simp [e1.1 h3, e2.1 h4, pure, Except.pure]
    · have : ¬ (a.outs.map (·.size) = b.outs.map (·.size)) := fun h => h2 (by simpa using congrArg List.length h)
      simp [h1, h2, rStr, rej, this]
  · have : ¬ (a.ins.map (·.size) = b.ins.map (·.size)) := fun h => h1 (by simpa using congrArg List.length h)
    simp [h1, rStr, rej, this]

/-- when a parameter size is blamed, it is the first parameter whose size differs (signature.go:19-24) -/
theorem signatureEquals_blames_first_arg (a b : Sig) (i : Nat) (ch : List ErrT)
    (h : signatureEquals a b = .error ⟨.sigArgSize i, ch⟩) :
    (∃ x y, a.ins[i]? = some x ∧ b.ins[i]? = some y ∧ x.size ≠ y.size) ∧
    (∀ j, j < i → ∃ x y, a.ins[j]? = some x ∧ b.ins[j]? = some y ∧ x.size = y.size) ∧ ch = [.str] := by
  unfold signatureEquals at h
  split at h
  · simp [rStr, rej] at h
  · split at h
    · simp [rStr, rej] at h
    · split at h
      · rename_i k hk
        simp only [rStr, rej, Except.error.injEq, Rej.mk.injEq, Cls.sigArgSize.injEq] at h
        obtain ⟨rfl, rfl⟩ := h
        have := firstSizeMismatch_some _ _ _ _ hk
        simpa using this
      · split at h
        · simp [rStr, rej] at h
        · simp [pure, Except.pure] at h

example : signatureEquals ⟨[⟨.int, 8, 1, false, 0⟩, ⟨.str, 16, 2, false, 0⟩], [], false, default⟩
    ⟨[⟨.int, 8, 1, false, 0⟩, ⟨.int, 8, 1, false, 0⟩], [], false, default⟩ = .error ⟨.sigArgSize 1, [.str]⟩ := by rfl

/-! ## B. A rejected call writes nothing, mocks nothing, and leaves at most one inert registry entry -/

/-- `unpatchValue` never mocks anything and only writes for an applied guard -/
theorem unpatchValue_facts (g : G) (t : Nat) :
    (∀ f, mocked (unpatchValue g t) f = true → mocked g f = true) ∧ (unpatchValue g t).tramp = g.tramp ∧
    (unpatchValue g t).patches = upd g.patches t none ∧
    ((∀ e, g.patches t = some e → e.applied = false) → (unpatchValue g t).text = g.text ∧ (unpatchValue g t).writes = g.writes) := by
  unfold unpatchValue
  cases h : g.patches t with
  | none =>
    refine ⟨fun _ h => h, rfl, ?_, fun _ => ⟨rfl, rfl⟩⟩
    funext x; by_cases hx : x = t <;> simp [upd, hx, h]
  | some e =>
    by_cases ha : e.applied = true
    · simp only [ha, if_true]
      refine ⟨?_, ?_, ?_, ?_⟩
      · intro f; by_cases hf : f = t <;> simp [mocked, upd, hf]
      · trivial
      · trivial
      · intro hh; simpa [ha] using hh e rfl
    · simp only [ha, if_false]
      refine ⟨fun _ h => h, ?_, ?_, fun _ => ⟨?_, ?_⟩⟩ <;> first | rfl | trivial

/-- patch.go:102: whatever way `replaceFunc` fails, no placeholder was written, no target became mocked, the only
    registry change is the entry `⟨repl, incomplete, not applied⟩` for this very target, and — unless an APPLIED patch of the
    same target was registered before (which line 106 removes first) — no byte was written at all. -/
theorem replaceFunc_rejected (g g' : G) (t fs repl : Nat) (tr : Option Tramp) (e : Rej)
    (h : replaceFunc g t fs repl tr = (g', .error e)) :
    g'.tramp = g.tramp ∧ (∀ f, mocked g' f = true → mocked g f = true) ∧
    g'.patches = upd g.patches t (some ⟨repl, false, false⟩) ∧
    ((∀ p, g.patches t = some p → p.applied = false) → g'.text = g.text ∧ g'.writes = g.writes) ∧
    (e.cls = .funcSmall ∨ e.cls = .alreadyPatched ∨ e.cls = .trampSmall) := by
  have hu := unpatchValue_facts g t
  -- the state after lines 106-109
  have key : ∀ g1 : G, g1 = (if (g.patches t).isSome then unpatchValue g t else g) →
      (∀ f, mocked g1 f = true → mocked g f = true) ∧ g1.tramp = g.tramp ∧
      upd g1.patches t (some (⟨repl, false, false⟩ : PatchE)) = upd g.patches t (some ⟨repl, false, false⟩) ∧
      ((∀ p, g.patches t = some p → p.applied = false) → g1.text = g.text ∧ g1.writes = g.writes) := by
    intro g1 hg1
    by_cases hp : (g.patches t).isSome
    · simp only [hp, if_true] at hg1
      subst hg1
      refine ⟨hu.1, hu.2.1, ?_, hu.2.2.2⟩
      rw [hu.2.2.1]; funext x; by_cases hx : x = t <;> simp [upd, hx]
    · simp only [hp] at hg1
      subst hg1
      exact ⟨fun _ h => h, rfl, rfl, fun _ => ⟨rfl, rfl⟩⟩
  unfold replaceFunc at h
  generalize hg1 : (if (g.patches t).isSome then unpatchValue g t else g) = g1 at h
  obtain ⟨k1, k2, k3, k4⟩ := key g1 hg1.symm
  simp only at h
  by_cases c1 : jumpLen ≥ fs
  · simp only [c1, if_true, Prod.mk.injEq, rej, Except.error.injEq] at h
    obtain ⟨rfl, rfl⟩ := h
    exact ⟨k2, k1, k3, k4, Or.inl rfl⟩
  · simp only [c1, if_false] at h
    by_cases c2 : (g1.text t).isSome
    · simp only [c2, if_true, Prod.mk.injEq, rej, Except.error.injEq] at h
      obtain ⟨rfl, rfl⟩ := h
      exact ⟨k2, k1, k3, k4, Or.inr (Or.inl rfl)⟩
    · simp only [c2] at h
      cases tr with
      | none => simp [pure, Except.pure] at h
      | some tr =>
        simp only at h
        by_cases c3 : jumpLen ≥ tr.size
        · simp only [c3, if_true, Prod.mk.injEq, rej, Except.error.injEq] at h
          obtain ⟨rfl, rfl⟩ := h
          exact ⟨k2, k1, k3, k4, Or.inr (Or.inr rfl)⟩
        · simp only [c3, if_false] at h
          by_cases c4 : tr.fixedLen > tr.size
          · simp only [c4, if_true, Prod.mk.injEq, rej, Except.error.injEq] at h
            obtain ⟨rfl, rfl⟩ := h
            exact ⟨k2, k1, k3, k4, Or.inr (Or.inr rfl)⟩
          · simp [c4, pure, Except.pure] at h

/-- what every rejected configuration call guarantees about the state it leaves (`g` before, `g'` after, target `t`) -/
structure RejectedNoop (g g' : G) (t repl : Nat) : Prop where
  /-- no origin placeholder was written -/
  tramp : g'.tramp = g.tramp
  /-- a target that was not mocked is still not mocked -/
  not_mocked : ∀ f, mocked g f = false → mocked g' f = false
  /-- the registry is unchanged, or holds exactly one new inert entry (incomplete, never applied) for the target -/
  registry : g'.patches = g.patches ∨ g'.patches = upd g.patches t (some ⟨repl, false, false⟩)
  /-- unless an APPLIED patch of this very target was registered (then patch.go:106 restores it first),
      the image is identical and not a single write happened -/
  text : (∀ p, g.patches t = some p → p.applied = false) → g'.text = g.text ∧ g'.writes = g.writes

theorem RejectedNoop.refl (g : G) (t repl : Nat) : RejectedNoop g g t repl :=
  ⟨rfl, fun _ h => h, Or.inl rfl, fun _ => ⟨rfl, rfl⟩⟩

/-- mocker.go:90 `applyByFunc` (Apply / Return / When of functions and methods all end here): a rejection is either
    raised before `replaceFunc` — then the state is untouched — or inside it, with the guarantees of
    `replaceFunc_rejected`.  In particular `guard.Apply()` (the only writer of a jump) is never reached. -/
theorem applyByFunc_rejected (g g' : G) (tg : Target) (cb : V) (o : OriginV) (repl : Nat) (e : Rej)
    (h : applyByFunc g tg cb o repl = (g', .error e)) :
    RejectedNoop g g' tg.id repl ∧
    (g' = g ∨ (e.cls = .funcSmall ∨ e.cls = .alreadyPatched ∨ e.cls = .trampSmall)) := by
  unfold applyByFunc at h
  cases h1 : checkTrampolineFunc o with
  | error e1 =>
    simp only [h1, Prod.mk.injEq, Except.error.injEq] at h
    obtain ⟨rfl, rfl⟩ := h
    exact ⟨RejectedNoop.refl _ _ _, Or.inl rfl⟩
  | ok tr =>
    simp only [h1] at h
    cases h2 : patchValueChecks (.fn tg.sig) cb with
    | error e2 =>
      simp only [h2, Prod.mk.injEq, Except.error.injEq] at h
      obtain ⟨rfl, rfl⟩ := h
      exact ⟨RejectedNoop.refl _ _ _, Or.inl rfl⟩
    | ok u =>
      simp only [h2] at h
      cases h3 : replaceFunc g tg.id tg.fsize repl tr with
      | mk g1 r =>
        cases r with
        | error e3 =>
          simp only [h3, Prod.mk.injEq, Except.error.injEq] at h
          obtain ⟨rfl, rfl⟩ := h
          have ⟨a, b, c, d, f⟩ := replaceFunc_rejected _ _ _ _ _ _ _ h3
          refine ⟨⟨a, ?_, Or.inr c, d⟩, Or.inr f⟩
          intro x hx
          cases hm : mocked g1 x with
          | false => rfl
          | true => rw [b x hm] at hx; cases hx
        | ok u2 => simp [h3, pure, Except.pure] at h

/-- **Rejected ⇒ nothing happened** for `Func(f)[.Origin(o)].Apply/Return/When[.Return]` (mocker.go:438-520):
    whatever the action, the signatures, the values, the placeholder and the prior state, the call that is rejected
    leaves the state it started from (for `When(ok).Return(bad)` that is the state the accepted `When` produced) with
    the guarantees of `RejectedNoop`, and the target behaves exactly as before. -/
theorem funcCall_rejected (g : G) (tg : Target) (pre : Beh) (o : OriginV) (repl : Nat) (act : Action) (e : Rej)
    (h : (funcCall g tg pre o repl act).res = .error e) :
    RejectedNoop (funcCall g tg pre o repl act).gBefore (funcCall g tg pre o repl act).g tg.id repl ∧
    (funcCall g tg pre o repl act).beh = (funcCall g tg pre o repl act).behBefore := by
  cases act with
  | apply cb =>
    simp only [funcCall] at h ⊢
    cases h1 : applyByFunc g tg cb o repl with
    | mk g1 r =>
      simp only [h1] at h ⊢
      subst h
      exact ⟨(applyByFunc_rejected _ _ _ _ _ _ _ h1).1, by first | trivial | rfl⟩
  | ret vals =>
    simp only [funcCall] at h ⊢
    cases h0 : createWhen tg.sig none (firstReturnValues vals) false with
    | error e0 => simp only [h0]; exact ⟨RejectedNoop.refl _ _ _, by first | trivial | rfl⟩
    | ok w =>
      simp only [h0] at h ⊢
      cases h1 : applyByFunc g tg (.fn tg.sig) o repl with
      | mk g1 r =>
        simp only [h1] at h ⊢
        subst h
        exact ⟨(applyByFunc_rejected _ _ _ _ _ _ _ h1).1, by first | trivial | rfl⟩
  | when_ args ret =>
    simp only [funcCall] at h ⊢
    cases h0 : createWhen tg.sig args none false with
    | error e0 => simp only [h0]; exact ⟨RejectedNoop.refl _ _ _, by first | trivial | rfl⟩
    | ok w =>
      simp only [h0] at h ⊢
      cases h1 : applyByFunc g tg (.fn tg.sig) o repl with
      | mk g1 r =>
        cases r with
        | error e1 =>
          simp only [h1]
          exact ⟨(applyByFunc_rejected _ _ _ _ _ _ _ h1).1, by first | trivial | rfl⟩
        | ok u =>
          simp only [h1] at h ⊢
          cases ret with
          | none => simp [pure, Except.pure] at h
          | some vals =>
            simp only at h ⊢
            cases h2 : whenReturn w tg.sig vals with
            | error e2 => simp only [h2]; exact ⟨RejectedNoop.refl _ _ _, by first | trivial | rfl⟩
            | ok w2 => simp [h2, pure, Except.pure] at h

/-- the same for `Struct(s).Method(name).Apply/Return/When` (mocker.go:199-330) -/
theorem methodCall_rejected (g : G) (name : String) (found : Bool) (tg : Target) (repl : Nat) (act : Action) (e : Rej)
    (h : (methodCall g name found tg repl act).res = .error e) :
    RejectedNoop (methodCall g name found tg repl act).gBefore (methodCall g name found tg repl act).g tg.id repl ∧
    (methodCall g name found tg repl act).beh = (methodCall g name found tg repl act).behBefore := by
  unfold methodCall at h ⊢
  by_cases hn : name = ""
  · simp only [hn, if_true]; exact ⟨RejectedNoop.refl _ _ _, by first | trivial | rfl⟩
  · by_cases hf : found = true
    · simp only [hn, hf, if_false, Bool.not_true, Bool.false_eq_true] at h ⊢
      cases act with
      | apply cb =>
        simp only at h ⊢
        cases h1 : applyByFunc g tg cb .none repl with
        | mk g1 r =>
          simp only [h1] at h ⊢
          subst h
          exact ⟨(applyByFunc_rejected _ _ _ _ _ _ _ h1).1, by first | trivial | rfl⟩
      | ret vals =>
        simp only at h ⊢
        cases h0 : createWhen tg.sig none (firstReturnValues vals) true with
        | error e0 => simp only [h0]; exact ⟨RejectedNoop.refl _ _ _, by first | trivial | rfl⟩
        | ok w =>
          simp only [h0] at h ⊢
          cases h1 : applyByFunc g tg (.fn tg.sig) .none repl with
          | mk g1 r =>
            simp only [h1] at h ⊢
            subst h
            exact ⟨(applyByFunc_rejected _ _ _ _ _ _ _ h1).1, by first | trivial | rfl⟩
      | when_ args ret =>
        simp only at h ⊢
        cases h0 : createWhen tg.sig args none true with
        | error e0 => simp only [h0]; exact ⟨RejectedNoop.refl _ _ _, by first | trivial | rfl⟩
        | ok w =>
          simp only [h0] at h ⊢
          cases h1 : applyByFunc g tg (.fn tg.sig) .none repl with
          | mk g1 r =>
            cases r with
            | error e1 =>
              simp only [h1]
              exact ⟨(applyByFunc_rejected _ _ _ _ _ _ _ h1).1, by first | trivial | rfl⟩
            | ok u =>
              simp only [h1] at h ⊢
              cases ret with
              | none => simp [pure, Except.pure] at h
              | some vals =>
                simp only at h ⊢
                cases h2 : whenReturn w tg.sig vals with
                | error e2 => simp only [h2]; exact ⟨RejectedNoop.refl _ _ _, by first | trivial | rfl⟩
                | ok w2 => simp [h2, pure, Except.pure] at h
    · simp only [hn, hf, if_false, Bool.not_false, if_true]; exact ⟨RejectedNoop.refl _ _ _, by first | trivial | rfl⟩

end C13
