import GoomVerif.Lemmas.C13L
/-!
# C13 — configuration mistakes are rejected up front and leave nothing patched

All theorems are about `Model/Reject.lean` (a transcription of goom's validation points, tied to the real code by the
differential run of `checks/C13.py`).  They quantify over **every** signature (slot lists of any length), every
callback / value list, every origin placeholder, every function size and every prior state of the image and the
`patches` registry.
-/
namespace C13
open Reject C13L

/-! ## A. `SignatureEquals`: exactly the count-and-size relation, and the reported slot is the first offender -/

/-- signature.go:9 accepts **iff** both slot lists have pairwise equal sizes (which includes equal counts). -/
theorem signatureEquals_ok_iff (a b : Sig) :
    signatureEquals a b = .ok () ↔
      a.ins.map (·.size) = b.ins.map (·.size) ∧ a.outs.map (·.size) = b.outs.map (·.size) := by
  unfold signatureEquals
  by_cases h1 : a.ins.length = b.ins.length
  · by_cases h2 : a.outs.length = b.outs.length
    · have e1 := firstSizeMismatch_none_iff a.ins b.ins 0 h1
      have e2 := firstSizeMismatch_none_iff a.outs b.outs 0 h2
      simp only [h1, h2, ne_eq, not_true_eq_false, if_false]
      cases h3 : firstSizeMismatch a.ins b.ins 0 with
      | some i =>
        have : ¬ (a.ins.map (·.size) = b.ins.map (·.size)) := fun h => by simp [e1.2 h] at h3
        simp [rStr, rej, this]
      | none =>
        cases h4 : firstSizeMismatch a.outs b.outs 0 with
        | some i =>
          have : ¬ (a.outs.map (·.size) = b.outs.map (·.size)) := fun h => by simp [e2.2 h] at h4
          simp [rStr, rej, this]
        | none => simp [e1.1 h3, e2.1 h4, pure, Except.pure]
    · have : ¬ (a.outs.map (·.size) = b.outs.map (·.size)) := fun h => h2 (by simpa using congrArg List.length h)
      simp [h1, h2, rStr, rej, this]
  · have : ¬ (a.ins.map (·.size) = b.ins.map (·.size)) := fun h => h1 (by simpa using congrArg List.length h)
    simp [h1, rStr, rej, this]

/-- when a parameter size is blamed, it is the first parameter whose size differs (signature.go:19-24) -/
theorem signatureEquals_blames_first_arg (a b : Sig) (i : Nat) (ch : List ErrT)
    (h : signatureEquals a b = .error ⟨.sigArgSize i, ch⟩) :
    (∃ x y, a.ins[i]? = some x ∧ b.ins[i]? = some y ∧ x.size ≠ y.size) ∧
    (∀ j, j < i → ∃ x y, a.ins[j]? = some x ∧ b.ins[j]? = some y ∧ x.size = y.size) ∧ ch = [.str] := by
  unfold signatureEquals at h
  split at h
  · simp [rStr, rej] at h
  · split at h
    · simp [rStr, rej] at h
    · split at h
      · rename_i k hk
        simp only [rStr, rej, Except.error.injEq, Rej.mk.injEq, Cls.sigArgSize.injEq] at h
        obtain ⟨rfl, rfl⟩ := h
        have := firstSizeMismatch_some _ _ _ _ hk
        simpa using this
      · split at h
        · simp [rStr, rej] at h
        · simp [pure, Except.pure] at h

example : signatureEquals ⟨[⟨.int, 8, 1, false, 0⟩, ⟨.str, 16, 2, false, 0⟩], [], false, default⟩
    ⟨[⟨.int, 8, 1, false, 0⟩, ⟨.int, 8, 1, false, 0⟩], [], false, default⟩ = .error ⟨.sigArgSize 1, [.str]⟩ := by rfl

/-! ## B. A rejected call writes nothing, mocks nothing, and leaves at most one inert registry entry -/

/-- `unpatchValue` never mocks anything and only writes for an applied guard -/
theorem unpatchValue_facts (g : G) (t : Nat) :
    (∀ f, mocked (unpatchValue g t) f = true → mocked g f = true) ∧ (unpatchValue g t).tramp = g.tramp ∧
    (unpatchValue g t).patches = upd g.patches t none ∧
    ((∀ e, g.patches t = some e → e.applied = false) → (unpatchValue g t).text = g.text ∧ (unpatchValue g t).writes = g.writes) := by
  unfold unpatchValue
  cases h : g.patches t with
  | none =>
    refine ⟨fun _ h => h, rfl, ?_, fun _ => ⟨rfl, rfl⟩⟩
    funext x; by_cases hx : x = t <;> simp [upd, hx, h]
  | some e =>
    by_cases ha : e.applied = true
    · simp only [ha, if_true]
      refine ⟨?_, ?_, ?_, ?_⟩
      · intro f; by_cases hf : f = t <;> simp [mocked, upd, hf]
      · trivial
      · trivial
      · intro hh; simpa [ha] using hh e rfl
    · simp only [ha, if_false]
      refine ⟨fun _ h => h, ?_, ?_, fun _ => ⟨?_, ?_⟩⟩ <;> first | rfl | trivial

/-- patch.go:102: whatever way `replaceFunc` fails, no placeholder was written, no target became mocked, the only
    registry change is the entry `⟨repl, incomplete, not applied⟩` for this very target, and — unless an APPLIED patch of the
    same target was registered before (which line 106 removes first) — no byte was written at all. -/
theorem replaceFunc_rejected (g g' : G) (t fs repl : Nat) (tr : Option Tramp) (e : Rej)
    (h : replaceFunc g t fs repl tr = (g', .error e)) :
    g'.tramp = g.tramp ∧ (∀ f, mocked g' f = true → mocked g f = true) ∧
    g'.patches = upd g.patches t (some ⟨repl, false, false⟩) ∧
    ((∀ p, g.patches t = some p → p.applied = false) → g'.text = g.text ∧ g'.writes = g.writes) ∧
    (e.cls = .funcSmall ∨ e.cls = .alreadyPatched ∨ e.cls = .trampSmall) := by
  have hu := unpatchValue_facts g t
  -- the state after lines 106-109
  have key : ∀ g1 : G, g1 = (if (g.patches t).isSome then unpatchValue g t else g) →
      (∀ f, mocked g1 f = true → mocked g f = true) ∧ g1.tramp = g.tramp ∧
      upd g1.patches t (some (⟨repl, false, false⟩ : PatchE)) = upd g.patches t (some ⟨repl, false, false⟩) ∧
      ((∀ p, g.patches t = some p → p.applied = false) → g1.text = g.text ∧ g1.writes = g.writes) := by
    intro g1 hg1
    by_cases hp : (g.patches t).isSome
    · simp only [hp, if_true] at hg1
      subst hg1
      refine ⟨hu.1, hu.2.1, ?_, hu.2.2.2⟩
      rw [hu.2.2.1]; funext x; by_cases hx : x = t <;> simp [upd, hx]
    · simp only [hp] at hg1
      subst hg1
      exact ⟨fun _ h => h, rfl, rfl, fun _ => ⟨rfl, rfl⟩⟩
  unfold replaceFunc at h
  generalize hg1 : (if (g.patches t).isSome then unpatchValue g t else g) = g1 at h
  obtain ⟨k1, k2, k3, k4⟩ := key g1 hg1.symm
  simp only at h
  by_cases c1 : jumpLen ≥ fs
  · simp only [c1, if_true, Prod.mk.injEq, rej, Except.error.injEq] at h
    obtain ⟨rfl, rfl⟩ := h
    exact ⟨k2, k1, k3, k4, Or.inl rfl⟩
  · simp only [c1, if_false] at h
    by_cases c2 : (g1.text t).isSome
    · simp only [c2, if_true, Prod.mk.injEq, rej, Except.error.injEq] at h
      obtain ⟨rfl, rfl⟩ := h
      exact ⟨k2, k1, k3, k4, Or.inr (Or.inl rfl)⟩
    · simp only [c2] at h
      cases tr with
      | none => simp [pure, Except.pure] at h
      | some tr =>
        simp only at h
        by_cases c3 : jumpLen ≥ tr.size
        · simp only [c3, if_true, Prod.mk.injEq, rej, Except.error.injEq] at h
          obtain ⟨rfl, rfl⟩ := h
          exact ⟨k2, k1, k3, k4, Or.inr (Or.inr rfl)⟩
        · simp only [c3, if_false] at h
          by_cases c4 : tr.fixedLen > tr.size
          · simp only [c4, if_true, Prod.mk.injEq, rej, Except.error.injEq] at h
            obtain ⟨rfl, rfl⟩ := h
            exact ⟨k2, k1, k3, k4, Or.inr (Or.inr rfl)⟩
          · simp [c4, pure, Except.pure] at h

/-- what every rejected configuration call guarantees about the state it leaves (`g` before, `g'` after, target `t`) -/
structure RejectedNoop (g g' : G) (t repl : Nat) : Prop where
  /-- no origin placeholder was written -/
  tramp : g'.tramp = g.tramp
  /-- a target that was not mocked is still not mocked -/
  not_mocked : ∀ f, mocked g f = false → mocked g' f = false
  /-- the registry is unchanged, or holds exactly one new inert entry (incomplete, never applied) for the target -/
  registry : g'.patches = g.patches ∨ g'.patches = upd g.patches t (some ⟨repl, false, false⟩)
  /-- unless an APPLIED patch of this very target was registered (then patch.go:106 restores it first),
      the image is identical and not a single write happened -/
  text : (∀ p, g.patches t = some p → p.applied = false) → g'.text = g.text ∧ g'.writes = g.writes

theorem RejectedNoop.refl (g : G) (t repl : Nat) : RejectedNoop g g t repl :=
  ⟨rfl, fun _ h => h, Or.inl rfl, fun _ => ⟨rfl, rfl⟩⟩

theorem asPanicString_cls (e : Rej) : (asPanicString e).cls = e.cls := by
  unfold asPanicString; split <;> rfl

/-- mocker.go:90 `applyByFunc` (Apply / Return / When of functions and methods all end here): a rejection is either
    raised before `replaceFunc` — then the state is untouched — or inside it, with the guarantees of
    `replaceFunc_rejected`.  In particular `guard.Apply()` (the only writer of a jump) is never reached. -/
theorem applyByFunc_rejected (g g' : G) (tg : Target) (cb : V) (o : OriginV) (repl : Nat) (e : Rej)
    (h : applyByFunc g tg cb o repl = (g', .error e)) :
    RejectedNoop g g' tg.id repl ∧
    (g' = g ∨ (e.cls = .funcSmall ∨ e.cls = .alreadyPatched ∨ e.cls = .trampSmall)) := by
  unfold applyByFunc at h
  cases h1 : checkTrampolineFunc o with
  | error e1 =>
    simp only [h1, Prod.mk.injEq, Except.error.injEq] at h
    obtain ⟨rfl, rfl⟩ := h
    exact ⟨RejectedNoop.refl _ _ _, Or.inl rfl⟩
  | ok tr =>
    simp only [h1] at h
    cases h2 : patchValueChecks (.fn tg.sig) cb with
    | error e2 =>
      simp only [h2, Prod.mk.injEq, Except.error.injEq] at h
      obtain ⟨rfl, rfl⟩ := h
      exact ⟨RejectedNoop.refl _ _ _, Or.inl rfl⟩
    | ok u =>
      simp only [h2] at h
      cases h3 : replaceFunc g tg.id tg.fsize repl tr with
      | mk g1 r =>
        cases r with
        | error e3 =>
          simp only [h3, Prod.mk.injEq, Except.error.injEq] at h
          obtain ⟨rfl, rfl⟩ := h
          have ⟨a, b, c, d, f⟩ := replaceFunc_rejected _ _ _ _ _ _ _ h3
          refine ⟨⟨a, ?_, Or.inr c, d⟩, Or.inr (by rw [asPanicString_cls]; exact f)⟩
          intro x hx
          cases hm : mocked g1 x with
          | false => rfl
          | true => rw [b x hm] at hx; cases hx
        | ok u2 => simp [h3, pure, Except.pure] at h

/-- **Rejected ⇒ nothing happened** for `Func(f)[.Origin(o)].Apply/Return/When[.Return]` (mocker.go:438-520):
    whatever the action, the signatures, the values, the placeholder and the prior state, the call that is rejected
    leaves the state it started from (for `When(ok).Return(bad)` that is the state the accepted `When` produced) with
    the guarantees of `RejectedNoop`, and the target behaves exactly as before. -/
theorem funcCall_rejected (g : G) (tg : Target) (pre : Beh) (o : OriginV) (repl : Nat) (act : Action) (e : Rej)
    (h : (funcCall g tg pre o repl act).res = .error e) :
    RejectedNoop (funcCall g tg pre o repl act).gBefore (funcCall g tg pre o repl act).g tg.id repl ∧
    (funcCall g tg pre o repl act).beh = (funcCall g tg pre o repl act).behBefore := by
  cases act with
  | apply cb =>
    simp only [funcCall] at h ⊢
    cases h1 : applyByFunc g tg cb o repl with
    | mk g1 r =>
      simp only [h1] at h ⊢
      subst h
      exact ⟨(applyByFunc_rejected _ _ _ _ _ _ _ h1).1, by first | trivial | rfl⟩
  | ret vals =>
    simp only [funcCall] at h ⊢
    cases h0 : createWhen tg.sig none (firstReturnValues vals) false with
    | error e0 => simp only [h0]; exact ⟨RejectedNoop.refl _ _ _, by first | trivial | rfl⟩
    | ok w =>
      simp only [h0] at h ⊢
      cases h1 : applyByFunc g tg (.fn tg.sig) o repl with
      | mk g1 r =>
        simp only [h1] at h ⊢
        subst h
        exact ⟨(applyByFunc_rejected _ _ _ _ _ _ _ h1).1, by first | trivial | rfl⟩
  | when_ args ret =>
    simp only [funcCall] at h ⊢
    cases h0 : createWhen tg.sig args none false with
    | error e0 => simp only [h0]; exact ⟨RejectedNoop.refl _ _ _, by first | trivial | rfl⟩
    | ok w =>
      simp only [h0] at h ⊢
      cases h1 : applyByFunc g tg (.fn tg.sig) o repl with
      | mk g1 r =>
        cases r with
        | error e1 =>
          simp only [h1]
          exact ⟨(applyByFunc_rejected _ _ _ _ _ _ _ h1).1, by first | trivial | rfl⟩
        | ok u =>
          simp only [h1] at h ⊢
          cases ret with
          | none => simp [pure, Except.pure] at h
          | some vals =>
            simp only at h ⊢
            cases h2 : whenReturn w tg.sig vals with
            | error e2 => simp only [h2]; exact ⟨RejectedNoop.refl _ _ _, by first | trivial | rfl⟩
            | ok w2 => simp [h2, pure, Except.pure] at h

/-- the same for `Struct(s).Method(name).Apply/Return/When` (mocker.go:199-330) -/
theorem methodCall_rejected (g : G) (name : String) (found : Bool) (tg : Target) (repl : Nat) (act : Action) (e : Rej)
    (h : (methodCall g name found tg repl act).res = .error e) :
    RejectedNoop (methodCall g name found tg repl act).gBefore (methodCall g name found tg repl act).g tg.id repl ∧
    (methodCall g name found tg repl act).beh = (methodCall g name found tg repl act).behBefore := by
  unfold methodCall at h ⊢
  by_cases hn : name = ""
  · simp only [hn, if_true]; exact ⟨RejectedNoop.refl _ _ _, by first | trivial | rfl⟩
  · by_cases hf : found = true
    · simp only [hn, hf, if_false, Bool.not_true, Bool.false_eq_true] at h ⊢
      cases act with
      | apply cb =>
        simp only at h ⊢
        cases h1 : applyByFunc g tg cb .none repl with
        | mk g1 r =>
          simp only [h1] at h ⊢
          subst h
          exact ⟨(applyByFunc_rejected _ _ _ _ _ _ _ h1).1, by first | trivial | rfl⟩
      | ret vals =>
        simp only at h ⊢
        cases h0 : createWhen tg.sig none (firstReturnValues vals) true with
        | error e0 => simp only [h0]; exact ⟨RejectedNoop.refl _ _ _, by first | trivial | rfl⟩
        | ok w =>
          simp only [h0] at h ⊢
          cases h1 : applyByFunc g tg (.fn tg.sig) .none repl with
          | mk g1 r =>
            simp only [h1] at h ⊢
            subst h
            exact ⟨(applyByFunc_rejected _ _ _ _ _ _ _ h1).1, by first | trivial | rfl⟩
      | when_ args ret =>
        simp only at h ⊢
        cases h0 : createWhen tg.sig args none true with
        | error e0 => simp only [h0]; exact ⟨RejectedNoop.refl _ _ _, by first | trivial | rfl⟩
        | ok w =>
          simp only [h0] at h ⊢
          cases h1 : applyByFunc g tg (.fn tg.sig) .none repl with
          | mk g1 r =>
            cases r with
            | error e1 =>
              simp only [h1]
              exact ⟨(applyByFunc_rejected _ _ _ _ _ _ _ h1).1, by first | trivial | rfl⟩
            | ok u =>
              simp only [h1] at h ⊢
              cases ret with
              | none => simp [pure, Except.pure] at h
              | some vals =>
                simp only at h ⊢
                cases h2 : whenReturn w tg.sig vals with
                | error e2 => simp only [h2]; exact ⟨RejectedNoop.refl _ _ _, by first | trivial | rfl⟩
                | ok w2 => simp [h2, pure, Except.pure] at h
    · simp only [hn, hf, if_false, Bool.not_false, if_true]; exact ⟨RejectedNoop.refl _ _ _, by first | trivial | rfl⟩

/-- the hypotheses of `funcCall_rejected` are satisfiable with a non-trivial prior state: the target is already mocked by
    another builder, the callback has one parameter too many; the call is rejected and the other mock stays in place -/
example :
    let g0 : G := { G.init with text := upd G.init.text 3 (some 900), writes := 1, patches := upd G.init.patches 3 (some ⟨900, true, true⟩) }
    let i : Ty := ⟨.int, 8, 25, false, 0⟩
    let out := funcCall g0 { id := 3, sig := ⟨[i], [i], false, i⟩ } .cb .none 901 (.apply (.fn ⟨[i, i], [i], false, i⟩))
    out.res = .error ⟨.sigArgsLen, [.str]⟩ ∧ out.g.text 3 = some 900 ∧ out.g.writes = 1 := by
  refine ⟨rfl, rfl, rfl⟩

/-! ### the inert entry a failing `replaceFunc` leaves behind is harmless -/

/-- `unpatchValue` / `UnpatchAll` on an inert entry (never applied) writes nothing and just drops it -/
theorem stale_unpatch_noop (g : G) (t r : Nat) (c : Bool) (h : g.patches t = some ⟨r, c, false⟩) :
    (unpatchValue g t).text = g.text ∧ (unpatchValue g t).writes = g.writes ∧ (unpatchValue g t).tramp = g.tramp ∧
    (unpatchValue g t).patches t = none := by
  simp [unpatchValue, h, upd]

/-- a later `replaceFunc` of the same target behaves exactly as if the inert entry had never been there -/
theorem stale_replace_same (g : G) (t r fs repl : Nat) (tr : Option Tramp) (h : g.patches t = some ⟨r, false, false⟩) :
    let g0 : G := { g with patches := upd g.patches t none }
    (replaceFunc g t fs repl tr).2 = (replaceFunc g0 t fs repl tr).2 ∧
    (replaceFunc g t fs repl tr).1.text = (replaceFunc g0 t fs repl tr).1.text ∧
    (replaceFunc g t fs repl tr).1.writes = (replaceFunc g0 t fs repl tr).1.writes ∧
    (replaceFunc g t fs repl tr).1.patches = (replaceFunc g0 t fs repl tr).1.patches := by
  have e1 : (if (g.patches t).isSome then unpatchValue g t else g) = { g with patches := upd g.patches t none } := by
    simp [h, unpatchValue]
  have e2 : ∀ g0 : G, g0 = { g with patches := upd g.patches t none } →
      (if (g0.patches t).isSome then unpatchValue g0 t else g0) = g0 := by
    intro g0 hg0; subst hg0; simp [upd]
  simp only [replaceFunc, e1, e2 _ rfl]
  refine ⟨?_, ?_, ?_, ?_⟩ <;> (repeat' split) <;> first | trivial | rfl

/-- **no half-patched state**: after a call was rejected for a target that had no applied patch, a correct `Apply` of the
    same target (matching callback, function large enough, not yet patched) is accepted and takes effect -/
theorem retry_after_reject (g g' : G) (tg : Target) (cb : V) (o : OriginV) (repl repl2 : Nat) (e : Rej)
    (h : applyByFunc g tg cb o repl = (g', .error e))
    (hun : g.text tg.id = none) (hreg : ∀ p, g.patches tg.id = some p → p.applied = false) (hsz : jumpLen < tg.fsize) :
    (applyByFunc g' tg (.fn tg.sig) .none repl2).2 = .ok () ∧
    (applyByFunc g' tg (.fn tg.sig) .none repl2).1.text tg.id = some repl2 := by
  have ⟨hn, _⟩ := applyByFunc_rejected _ _ _ _ _ _ _ h
  have htext : g'.text tg.id = none := by rw [(hn.text hreg).1]; exact hun
  have happ : ∀ p, g'.patches tg.id = some p → p.applied = false := by
    intro p hp
    cases hn.registry with
    | inl h1 => rw [h1] at hp; exact hreg p hp
    | inr h1 => rw [h1] at hp; simp [upd] at hp; subst hp; rfl
  have hsig : patchValueChecks (.fn tg.sig) (.fn tg.sig) = .ok () := by
    have := (signatureEquals_ok_iff tg.sig tg.sig).2 ⟨rfl, rfl⟩
    simp [patchValueChecks, sigOf, this, bind, Except.bind, pure, Except.pure]
  have hu := unpatchValue_facts g' tg.id
  have hg1 : ∀ g1 : G, g1 = (if (g'.patches tg.id).isSome then unpatchValue g' tg.id else g') → g1.text tg.id = none := by
    intro g1 h1
    by_cases hp : (g'.patches tg.id).isSome
    · simp only [hp, if_true] at h1; subst h1; rw [(hu.2.2.2 happ).1]; exact htext
    · simp only [hp] at h1; subst h1; exact htext
  have hlt : ¬ (jumpLen ≥ tg.fsize) := by omega
  simp only [applyByFunc, checkTrampolineFunc, pure, Except.pure, hsig, replaceFunc, hlt, if_false, hg1 _ rfl,
    Option.isSome_none, Bool.false_eq_true, guardApply, upd_same]
  simp [upd]

/-! ## C. Every listed mistake is rejected; what is accepted fits -/

theorem patchValueChecks_ok (a : Sig) (cb : V) (h : patchValueChecks (.fn a) cb = .ok ()) :
    ∃ s, cb = .fn s ∧ signatureEquals a s = .ok () := by
  cases cb with
  | fn s =>
    refine ⟨s, rfl, ?_⟩
    cases hs : signatureEquals a s with
    | ok u => rfl
    | error e => simp [patchValueChecks, sigOf, hs, bind, Except.bind, pure, Except.pure] at h
  | nil => simp [patchValueChecks, sigOf, rReflect, rej, bind, Except.bind, pure, Except.pure] at h
  | val t => simp [patchValueChecks, sigOf, rReflect, rej, bind, Except.bind, pure, Except.pure] at h
  | expr => simp [patchValueChecks, sigOf, rReflect, rej, bind, Except.bind, pure, Except.pure] at h

/-- **acceptance is sound**: if `Apply(cb)` is accepted then `cb` is a function whose parameter and result lists have
    the target's counts and slot sizes -/
theorem accepted_fits (g : G) (tg : Target) (cb : V) (o : OriginV) (repl : Nat)
    (h : (applyByFunc g tg cb o repl).2 = .ok ()) :
    ∃ s, cb = .fn s ∧ tg.sig.ins.map (·.size) = s.ins.map (·.size) ∧ tg.sig.outs.map (·.size) = s.outs.map (·.size) := by
  unfold applyByFunc at h
  cases h1 : checkTrampolineFunc o with
  | error e1 => simp [h1] at h
  | ok tr =>
    simp only [h1] at h
    cases h2 : patchValueChecks (.fn tg.sig) cb with
    | error e2 => simp [h2] at h
    | ok u =>
      have ⟨s, hs, he⟩ := patchValueChecks_ok _ _ h2
      exact ⟨s, hs, (signatureEquals_ok_iff _ _).1 he⟩

/-- **a callback that is no function, or whose parameter/result count or some slot size differs, is rejected** — before
    `replaceFunc`, so the state is literally untouched (for every origin placeholder, valid or not) -/
theorem callback_mistake_rejected (g : G) (tg : Target) (cb : V) (o : OriginV) (repl : Nat)
    (hbad : ∀ s, cb = .fn s →
      ¬ (tg.sig.ins.map (·.size) = s.ins.map (·.size) ∧ tg.sig.outs.map (·.size) = s.outs.map (·.size))) :
    ∃ e, applyByFunc g tg cb o repl = (g, .error e) := by
  unfold applyByFunc
  cases h1 : checkTrampolineFunc o with
  | error e1 => exact ⟨e1, rfl⟩
  | ok tr =>
    cases h2 : patchValueChecks (.fn tg.sig) cb with
    | error e2 => exact ⟨asPanicString e2, rfl⟩
    | ok u =>
      have ⟨s, hs, he⟩ := patchValueChecks_ok _ _ h2
      exact absurd ((signatureEquals_ok_iff _ _).1 he) (hbad s hs)

/-- satisfiable: a callback with one result too few -/
example : ∃ e, applyByFunc G.init { id := 0, sig := ⟨[], [⟨.int, 8, 25, false, 0⟩], false, default⟩ }
    (.fn ⟨[], [], false, default⟩) .none 1 = (G.init, .error e) :=
  callback_mistake_rejected _ _ _ _ _ (by intro s hs; cases hs; simp)

/-- when.go:77 — **too few return values**: rejected with the typed cause `*erro.ReturnsNotMatch(got, want)`, which is
    what walking the error reaches -/
theorem too_few_returns_rejected (s : Sig) (args : Option (List V)) (vals : List V) (m : Bool)
    (h : vals.length < s.outs.length) :
    createWhen s args (some vals) m = .error ⟨.returnsNotMatch, [.returnsNotMatch vals.length s.outs.length]⟩ ∧
    walk [ErrT.returnsNotMatch vals.length s.outs.length] = some (.returnsNotMatch vals.length s.outs.length) := by
  simp [createWhen, checkParams, h, rej, newReturnsNotMatchError, bind, Except.bind, walk]

/-- `Return()` with no value at all on a function that has results is the same mistake (mocker.go:487) -/
theorem no_return_values_rejected (g : G) (tg : Target) (pre : Beh) (o : OriginV) (repl : Nat) (h : 0 < tg.sig.outs.length) :
    (funcCall g tg pre o repl (.ret none)).res = .error ⟨.returnsNotMatch, [.returnsNotMatch 0 tg.sig.outs.length]⟩ ∧
    (funcCall g tg pre o repl (.ret none)).g = g := by
  have := (too_few_returns_rejected tg.sig none [] false (by simpa using h)).1
  simp [funcCall, firstReturnValues, this]

/-- the number of condition arguments a first `When` must at least give (when.go:80-88): the parameters without the
    receiver and without the variadic slot — `When(1)` on `f(int, ...int)` describes the legal call `f(1)` -/
def requiredArgs (s : Sig) (m : Bool) : Nat :=
  s.ins.length - (if m then 1 else 0) - (if s.variadic then 1 else 0)

/-- when.go:89 — **too few condition arguments** (fewer than the FIXED parameters): typed cause `*erro.ArgsNotMatch(got, want)` -/
theorem too_few_args_rejected (s : Sig) (as : List V) (m : Bool) (h : as.length < requiredArgs s m) :
    createWhen s (some as) none m = .error ⟨.argsNotMatch, [.argsNotMatch as.length (requiredArgs s m)]⟩ := by
  unfold requiredArgs at h ⊢
  simp [createWhen, checkParams, h, rej, bind, Except.bind, pure, Except.pure]

example : createWhen ⟨[⟨.str, 16, 31, false, 0⟩, ⟨.int, 8, 25, false, 0⟩, ⟨.slice, 24, 32, false, 0⟩], [], true, ⟨.int, 8, 25, false, 0⟩⟩
    (some [.val ⟨.str, 16, 31, false, 0⟩]) none false = .error ⟨.argsNotMatch, [.argsNotMatch 1 2]⟩ :=
  too_few_args_rejected _ _ _ (by decide)

/-- **any wrong number of return values** (too few or too many) is rejected, whatever the values are -/
theorem wrong_return_count_rejected (s : Sig) (vals : List V) (m : Bool) (h : vals.length ≠ s.outs.length) :
    ∃ e, createWhen s none (some vals) m = .error e := by
  by_cases hlt : vals.length < s.outs.length
  · exact ⟨_, (too_few_returns_rejected s none vals m hlt).1⟩
  · refine ⟨⟨.retvalCount, [.str]⟩, ?_⟩
    simp [createWhen, checkParams, hlt, addResult, i2v, h, rStr, rej, bind, Except.bind, pure, Except.pure]

theorem slotType_lt (types : List Ty) (i : Nat) (h : i < types.length) : slotType types i = types[i]? := by
  unfold slotType
  by_cases h1 : i + 1 < types.length
  · simp [h1]
  · have hi : i = types.length - 1 := by omega
    simp only [h1, if_false]
    rw [List.getLast?_eq_getElem?, hi]

/-- the conversion loop fails as soon as one slot fails -/
theorem convLoop_error (conv : V → Ty → Except TvErr Unit) (types : List Ty) :
    ∀ (vs : List V) (i : Nat), i + vs.length ≤ types.length →
      (∃ j v t er, vs[j]? = some v ∧ types[i + j]? = some t ∧ conv v t = .error er) →
      ∃ er, convLoop conv types vs i = .error er
  | [], _, _, ⟨j, v, t, er, hv, _, _⟩ => by simp at hv
  | a :: rest, i, hlen, ⟨j, v, t, er, hv, ht, hc⟩ => by
    have hi : i < types.length := by simp at hlen; omega
    have hst := slotType_lt types i hi
    have hget : types[i]? = some types[i] := List.getElem?_eq_getElem hi
    simp only [convLoop, hst, hget]
    cases hca : conv a types[i] with
    | error e1 => exact ⟨e1, by simp [bind, Except.bind]⟩
    | ok u =>
      simp only [bind, Except.bind]
      cases j with
      | zero =>
        simp at hv ht; subst hv
        rw [hget] at ht; cases ht
        rw [hca] at hc; cases hc
      | succ j =>
        apply convLoop_error conv types rest (i + 1) (by simp at hlen ⊢; omega)
        refine ⟨j, v, t, er, by simpa using hv, ?_, hc⟩
        have : i + 1 + j = i + (j + 1) := by omega
        rw [this]; exact ht

/-- value.go:71 — a non-nil value whose size differs from a non-interface result slot does not convert -/
theorem toValue_size_mismatch (t out : Ty) (hk : out.kind ≠ .iface) (hs : t.size ≠ out.size) :
    ∃ er, toValue (.val t) out = .error er := by
  unfold toValue
  simp only [V.ty?]
  by_cases hc : ¬t = out ∧ (out.kind = .strct ∨ out.kind = .ptr)
  · exact ⟨.typeMismatch, by simp [hc, hs]⟩
  · by_cases hi : t.kind = .ptr ∧ t.id = idIfaceICtx
    · exact ⟨.ictxPanic, by simp [hc, hi]⟩
    · exact ⟨.typeMismatch, by simp [hc, hi, hk, hs]⟩

/-- **a return value whose size does not fit its result slot is rejected** (at any position, for any list) -/
theorem return_size_mismatch_rejected (s : Sig) (vals : List V) (m : Bool) (i : Nat) (t out : Ty)
    (hv : vals[i]? = some (.val t)) (ho : s.outs[i]? = some out) (hk : out.kind ≠ .iface) (hs : t.size ≠ out.size) :
    ∃ e, createWhen s none (some vals) m = .error e := by
  by_cases hlen : vals.length = s.outs.length
  · have ⟨er, her⟩ := toValue_size_mismatch t out hk hs
    have ⟨e2, he2⟩ := convLoop_error toValue s.outs vals 0 (by omega) ⟨i, _, _, er, hv, by simpa using ho, her⟩
    have hlt : ¬ vals.length < s.outs.length := by omega
    cases e2 <;>
      exact ⟨_, by simp [createWhen, checkParams, hlt, addResult, i2v, hlen, he2, bind, Except.bind, pure, Except.pure]; rfl⟩
  · exact wrong_return_count_rejected s vals m hlen

example : ∃ e, createWhen ⟨[], [⟨.int, 8, 25, false, 0⟩, ⟨.str, 16, 31, false, 0⟩], false, default⟩ none
    (some [.val ⟨.int, 8, 25, false, 0⟩, .val ⟨.int, 4, 23, false, 0⟩]) false = .error e :=
  return_size_mismatch_rejected _ _ _ 1 ⟨.int, 4, 23, false, 0⟩ ⟨.str, 16, 31, false, 0⟩ rfl rfl (by decide) (by decide)

/-- **unknown or empty method name**: rejected, state untouched (mocker.go:200,207) -/
theorem unknown_method_rejected (g : G) (name : String) (tg : Target) (repl : Nat) (act : Action) :
    ∃ e, (methodCall g name false tg repl act).res = .error e ∧ (methodCall g name false tg repl act).g = g := by
  unfold methodCall
  by_cases hn : name = "" <;> simp [hn, rStr, rej]

/-- **unknown symbol name** (ExportFunc / ExportStruct, Apply or As): rejected (func.go:60, mocker.go:414) -/
theorem unknown_symbol_rejected (form : ExportForm) (nameEmpty asCall : Bool) :
    ∃ e, exportCall form nameEmpty false asCall = .error e := by
  unfold exportCall
  by_cases h1 : (form = .func && nameEmpty) = true
  · exact ⟨_, by simp only [h1, if_true]; rfl⟩
  · cases asCall <;> simp [h1, rStr, rej]

/-- **a non-pointer or a pointer to a non-interface handed to `Interface`** is rejected for every method name, callback
    and action, and the variable is never replaced -/
theorem iface_kind_rejected (v : IfaceVar) (hv : v ≠ .ptrIface) (name : String) (found : Bool) (m : Sig) (cb : V) :
    ∃ e, ifaceCall v name found m (.apply cb) = (.error e, false) := by
  unfold ifaceCall
  cases h0 : ifaceMethod v name found with
  | error e0 => exact ⟨e0, rfl⟩
  | ok u =>
    simp only
    cases h1 : applyIface v m cb with
    | error e1 => exact ⟨e1, rfl⟩
    | ok u1 =>
      exfalso
      unfold applyIface at h1
      cases cb with
      | nil => simp [rRuntime, rej] at h1
      | val t => simp [rReflect, rej] at h1
      | expr => simp [rReflect, rej] at h1
      | fn c =>
        simp only at h1
        cases hc : c.ins with
        | nil => simp [hc, rRuntime, rej] at h1
        | cons first rest =>
          simp only [hc] at h1
          split at h1
          · simp [rej] at h1
          · cases v with
            | ptrIface => exact hv rfl
            | value k hm => simp [rej] at h1
            | nilValue => simp [rRuntime, rej] at h1
            | ptrTo k hm => simp [rej] at h1

/-- interface.go:36 ff. — **an interface-method callback is accepted iff** it has exactly the method's parameters after the
    leading `*IContext`, the same number of results, and equal slot sizes -/
theorem ifaceSignature_ok_iff (m cb : Sig) :
    ifaceSignature m cb = .ok () ↔
      cb.ins.length = m.ins.length + 1 ∧ m.ins.map (·.size) = (cb.ins.drop 1).map (·.size) ∧
      m.outs.map (·.size) = cb.outs.map (·.size) := by
  unfold ifaceSignature
  by_cases h1 : m.ins.length ≥ cb.ins.length
  · have : ¬ cb.ins.length = m.ins.length + 1 := by omega
    simp [h1, rej, this]
  · rw [if_neg h1]
    by_cases h2 : cb.ins.length = m.ins.length + 1
    · rw [if_neg (by simpa using h2)]
      by_cases h3 : cb.outs.length = m.outs.length
      · rw [if_neg (by simpa using h3)]
        have l1 : m.ins.length = (cb.ins.drop 1).length := by simp; omega
        have e1 := firstSizeMismatch_none_iff m.ins (cb.ins.drop 1) 0 l1
        have e2 := firstSizeMismatch_none_iff m.outs cb.outs 0 h3.symm
        cases h4 : firstSizeMismatch m.ins (cb.ins.drop 1) 0 with
        | some i =>
          have hn : ¬ (m.ins.map (·.size) = (cb.ins.drop 1).map (·.size)) := fun h => by rw [e1.2 h] at h4; cases h4
          constructor
          · intro h; cases h
          · intro ⟨_, h, _⟩; exact absurd h hn
        | none =>
          cases h5 : firstSizeMismatch m.outs cb.outs 0 with
          | some i =>
            have hn : ¬ (m.outs.map (·.size) = cb.outs.map (·.size)) := fun h => by rw [e2.2 h] at h5; cases h5
            constructor
            · intro h; cases h
            · intro ⟨_, _, h⟩; exact absurd h hn
          | none => exact ⟨fun _ => ⟨h2, e1.1 h4, e2.1 h5⟩, fun _ => rfl⟩
      · rw [if_pos (by simpa using h3)]
        constructor
        · intro h; cases h
        · intro ⟨_, _, h⟩; exact absurd (by simpa using (congrArg List.length h).symm) h3
    · rw [if_pos (by simpa using h2)]
      constructor
      · intro h; cases h
      · intro ⟨h, _, _⟩; exact absurd h h2

/-! ## D. The cause chain can be walked to the typed cause -/

/-- every rejection of an interface callback is `TraceableError → *IllegalParam → typed cause`; walking with `erro.Cause`
    ends at `*erro.IllegalParam` (what `TestUnitArgsNotMatch` asserts: `IllegalParam` has `Cause()` but is not `Traceable`),
    and its own `Cause()` is one of the three typed causes -/
theorem cause_iface_signature (m cb : Sig) (e : Rej) (h : ifaceSignature m cb = .error e) :
    walk e.chain = some .illegalParam ∧
    ∃ c, e.chain = [.traceable, .illegalParam, c] ∧
      (c = .argsNotMatch cb.ins.length (m.ins.length + 1) ∨ c = .returnsNotMatch cb.outs.length m.outs.length ∨ c = .illegalParamType) := by
  unfold ifaceSignature at h
  split at h
  · simp only [rej, Except.error.injEq] at h; subst h; exact ⟨rfl, _, rfl, Or.inl rfl⟩
  · split at h
    · simp only [rej, Except.error.injEq] at h; subst h; exact ⟨rfl, _, rfl, Or.inl rfl⟩
    · split at h
      · simp only [rej, Except.error.injEq, newReturnsNotMatchError] at h; subst h; exact ⟨rfl, _, rfl, Or.inr (Or.inl rfl)⟩
      · split at h
        · simp [pure, Except.pure] at h
        · simp only [rej, Except.error.injEq] at h; subst h; exact ⟨rfl, _, rfl, Or.inr (Or.inr rfl)⟩

/-- `erro.Cause` never stops at a wrapper: the walk over any chain the model produces for an interface mock ends at a
    node that is not `*TraceableError` -/
theorem walk_not_wrapper : ∀ (c : List ErrT), c ≠ [] → c.getLast? ≠ some .traceable → ∃ x, walk c = some x ∧ x ≠ .traceable
  | [], h, _ => absurd rfl h
  | [e], _, h2 => ⟨e, rfl, by simpa using h2⟩
  | e :: c :: rest, _, h2 => by
    cases e with
    | traceable =>
      have := walk_not_wrapper (c :: rest) (by simp) (by simpa [List.getLast?_cons_cons] using h2)
      simpa [walk] using this
    | str | reflect | runtime | plain | illegalParam | illegalParamType => exact ⟨_, rfl, by simp⟩
    | argsNotMatch a b => exact ⟨_, rfl, by simp⟩
    | returnsNotMatch a b => exact ⟨_, rfl, by simp⟩

/-! ## E. Sequences: every later configuration call on an already configured mocker -/

/-- the first `Return/When/Returns` of a mocker: whichever step it is, a rejection leaves the image and the registry as
    `RejectedNoop` says and the entry jumping where it did -/
theorem seqFirst_rejected (tg : Target) (isM : Bool) (repl : Nat) (ms ms' : MS) (st : Step) (e : Rej)
    (h : seqFirst tg isM repl ms st = (ms', .error e)) :
    RejectedNoop ms.g ms'.g tg.id repl ∧ ms'.imp = ms.imp := by
  unfold seqFirst at h
  simp only at h
  split at h
  · -- CreateWhen failed
    simp only [Prod.mk.injEq, Except.error.injEq] at h
    obtain ⟨rfl, _⟩ := h
    exact ⟨RejectedNoop.refl _ _ _, rfl⟩
  · split at h
    · -- filling the When (Returns) failed: nothing is kept, nothing applied
      simp only [Prod.mk.injEq, Except.error.injEq] at h
      obtain ⟨rfl, _⟩ := h
      exact ⟨RejectedNoop.refl _ _ _, rfl⟩
    · split at h
      · rename_i g1 e1 h1
        simp only [Prod.mk.injEq, Except.error.injEq] at h
        obtain ⟨rfl, rfl⟩ := h
        exact ⟨(applyByFunc_rejected _ _ _ _ _ _ _ h1).1, rfl⟩
      · simp [pure, Except.pure] at h

/-- **a rejected call at any point of a configuration sequence** (`Return/When/Returns/AndReturn/In/Matches/Apply`, on the
    handle or through a repeated lookup; functions and methods): the image, the registry and what the entry jumps to are
    as `RejectedNoop` says — in particular a first `Returns(..)` whose value list is bad is rejected BEFORE `doApply`
    (the value lists are checked before `m.whens`), and a call that only adds matchers never touches the image at all. -/
theorem seqStep_rejected (tg : Target) (isM : Bool) (repl : Nat) (ms ms' : MS) (st : Step) (e : Rej)
    (h : seqStep tg isM repl ms st = (ms', .error e)) :
    RejectedNoop ms.g ms'.g tg.id repl ∧ ms'.imp = ms.imp := by
  cases st with
  | again => simp [seqStep, pure, Except.pure] at h
  | asFn f => simp [seqStep, pure, Except.pure] at h
  | holder hm => simp [seqStep, pure, Except.pure] at h
  | lookup name found =>
    simp only [seqStep, Prod.mk.injEq] at h
    obtain ⟨rfl, _⟩ := h
    exact ⟨RejectedNoop.refl _ _ _, rfl⟩
  | apply cb =>
    simp only [seqStep] at h
    cases h1 : applyByFunc ms.g tg cb .none repl with
    | mk g1 r =>
      cases r with
      | error e1 =>
        simp only [h1, Prod.mk.injEq, Except.error.injEq] at h
        obtain ⟨rfl, rfl⟩ := h
        exact ⟨(applyByFunc_rejected _ _ _ _ _ _ _ h1).1, rfl⟩
      | ok u => simp [h1, pure, Except.pure] at h
  | ret _ | when_ _ _ | returns _ | andReturn _ | in_ _ | matchPairs _ =>
    simp only [seqStep] at h
    cases hw : ms.when with
    | some w =>
      simp only [hw] at h
      have hg : ms'.g = ms.g ∧ ms'.imp = ms.imp := by
        have := congrArg Prod.fst h; simp at this; subst this; exact ⟨rfl, rfl⟩
      rw [hg.1]; exact ⟨RejectedNoop.refl _ _ _, hg.2⟩
    | none =>
      simp only [hw] at h
      exact seqFirst_rejected _ _ _ _ _ _ _ h

/-- consequently a target whose entry does not (yet) jump to this mocker's When-function behaves exactly as before -/
theorem seqStep_rejected_behaviour (tg : Target) (isM : Bool) (repl : Nat) (ms ms' : MS) (st : Step) (e : Rej) (pre : Beh)
    (h : seqStep tg isM repl ms st = (ms', .error e)) (hi : ms.imp ≠ .whenFn) :
    behOf pre ms' = behOf pre ms := by
  have hh := (seqStep_rejected _ _ _ _ _ _ _ h).2
  unfold behOf
  rw [hh]
  cases hk : ms.imp with
  | none => rfl
  | cb => rfl
  | whenFn => exact absurd hk hi

/-- a first `Returns(ok, bad)` on a not yet mocked method: rejected, nothing written, the entry still pristine -/
example :
    let i : Ty := ⟨.int, 8, 25, false, 0⟩
    let i32 : Ty := ⟨.int, 4, 23, false, 0⟩
    let r := seqStep { id := 0, sig := ⟨[i], [i], false, i⟩ } true 901 ⟨G.init, none, .none⟩ (.returns [[.val i], [.val i32]])
    r.2 = .error ⟨.retvalType, [.str]⟩ ∧ r.1.g.writes = 0 ∧ r.1.g.text 0 = none := by
  refine ⟨rfl, rfl, rfl⟩

/-- when.go:103 — **a follow-up `When` with the wrong number of condition arguments is rejected** (non-variadic
    target; too few and too many), on the handle and through the cached mocker alike, and the `*When` is unchanged -/
theorem follow_up_when_count_rejected (s : Sig) (isM : Bool) (w : WS) (args : Option (List V)) (hit : Bool)
    (hv : s.variadic = false) (h : (args.getD []).length ≠ (inTypes isM s).length) :
    whenStep s isM w (.when_ args hit) = (w, .error ⟨.whenCount, [.str]⟩) := by
  simp [whenStep, wWhen, newDefaultMatch, hv, toExpr, h, rStr, rej, bind, Except.bind]

/-- when.go:123 — the same for `In(...)`: a group with the wrong number of conditions is rejected -/
theorem follow_up_in_count_rejected (s : Sig) (isM : Bool) (w : WS) (g : List V) (h : Bool) (rest : List (InArg × Bool))
    (hv : s.variadic = false) (hlen : g.length ≠ (inTypes isM s).length) :
    whenStep s isM w (.in_ ((.list g, h) :: rest)) = (w, .error ⟨.inCount, [.str]⟩) := by
  simp [whenStep, wIn, inParam, hv, toExpr, hlen, rStr, rej, pure, Except.pure]

/-- **variadic targets**: a later `When` / `Matches` with fewer conditions than FIXED parameters is rejected
    (matcher.go:97-105: the type list keeps all fixed parameters, so `ToExpr`'s count test fails), however many fixed
    parameters there are -/
theorem follow_up_variadic_too_few_rejected (s : Sig) (isM : Bool) (w : WS) (args : Option (List V)) (hit : Bool)
    (hv : s.variadic = true) (h : (args.getD []).length < (inTypes isM s).length - 1) :
    whenStep s isM w (.when_ args hit) = (w, .error ⟨.whenCount, [.str]⟩) := by
  have hne : ¬ (args.getD []).length = (inTypes isM s).length - 1 +
      ((args.getD []).length - ((inTypes isM s).length - 1)) := by omega
  simp [whenStep, wWhen, newDefaultMatch, hv, toExpr, hne, rStr, rej, bind, Except.bind]

/-- and the same for `In(...)` on a variadic target (value.go:118) -/
theorem follow_up_variadic_in_too_few_rejected (s : Sig) (isM : Bool) (w : WS) (g : List V) (h : Bool)
    (rest : List (InArg × Bool)) (hv : s.variadic = true) (hlen : g.length < (inTypes isM s).length - 1) :
    whenStep s isM w (.in_ ((.list g, h) :: rest)) = (w, .error ⟨.inCount, [.str]⟩) := by
  simp [whenStep, wIn, inParam, hv, toExprV, hlen, rStr, rej, pure, Except.pure]

example :
    let i : Ty := ⟨.int, 8, 25, false, 0⟩
    let st : Ty := ⟨.str, 16, 31, false, 0⟩
    let sl : Ty := ⟨.slice, 24, 32, false, 0⟩
    whenStep ⟨[st, i, sl], [i], true, i⟩ false ⟨true, true, true, true⟩ (.when_ (some [.val st]) false) =
      (⟨true, true, true, true⟩, .error ⟨.whenCount, [.str]⟩) :=
  follow_up_variadic_too_few_rejected _ _ _ _ _ rfl (by decide)

/-- when.go:168 — and for `Matches(...)`: a pair whose condition list has the wrong length is rejected -/
theorem follow_up_matches_count_rejected (s : Sig) (isM : Bool) (w : WS) (a r : List V) (hit : Bool)
    (rest : List (List V × Bool × List V)) (hv : s.variadic = false) (hlen : a.length ≠ (inTypes isM s).length) :
    whenStep s isM w (.matchPairs ((a, hit, r) :: rest)) = (w, .error ⟨.whenCount, [.str]⟩) := by
  simp [whenStep, wMatches, newDefaultMatch, hv, toExpr, hlen, rStr, rej]

example : whenStep ⟨[⟨.int, 8, 25, false, 0⟩, ⟨.str, 16, 31, false, 0⟩], [], false, default⟩ false ⟨true, true, true, true⟩
    (.when_ (some [.val ⟨.int, 8, 25, false, 0⟩]) false) = (⟨true, true, true, true⟩, .error ⟨.whenCount, [.str]⟩) :=
  follow_up_when_count_rejected _ _ _ _ _ rfl (by decide)

/-! ## F. Retries: a rejected call leaves nothing behind that would let the same mistake pass later -/

/-- an unknown or empty method name is rejected **every time** it is looked up (cache.go:139/44 validate before caching),
    and the mocker is exactly as before -/
theorem lookup_unknown_always_rejected (tg : Target) (isM : Bool) (repl : Nat) (ms : MS) (name : String) :
    ∃ e, seqStep tg isM repl ms (.lookup name false) = (ms, .error e) := by
  by_cases hn : name = "" <;> simp [seqStep, lookupCheck, hn, rStr, rej]

/-- an ill-formed `Apply` after a valid stub: rejected, and the mocker still holds the same `When` and the entry still
    jumps to the same function — the earlier configuration keeps answering (mocker.go:508: `doApply` first, `m.when = nil` after) -/
theorem bad_apply_keeps_configuration (tg : Target) (isM : Bool) (repl : Nat) (ms ms' : MS) (cb : V) (e : Rej) (pre : Beh)
    (h : seqStep tg isM repl ms (.apply cb) = (ms', .error e)) :
    ms'.when = ms.when ∧ ms'.imp = ms.imp ∧ behOf pre ms' = behOf pre ms := by
  simp only [seqStep] at h
  cases h1 : applyByFunc ms.g tg cb .none repl with
  | mk g1 r =>
    cases r with
    | error e1 =>
      simp only [h1, Prod.mk.injEq] at h
      obtain ⟨rfl, _⟩ := h
      exact ⟨rfl, rfl, rfl⟩
    | ok u => simp [h1, pure, Except.pure] at h

/-- the first `Return/When/Returns` of an interface-method mocker: a rejection leaves the mocker exactly as it was -/
theorem ifaceFirst_rejected (m : Sig) (s s' : IS) (st : Step) (e : Rej) (h : ifaceFirst m s st = (s', .error e)) : s' = s := by
  unfold ifaceFirst at h
  simp only at h
  split at h
  · simp only [Prod.mk.injEq] at h; exact h.1.symm
  · split at h
    · simp only [Prod.mk.injEq] at h; exact h.1.symm
    · simp [pure, Except.pure] at h

/-- interface mockers (iface.go:112-186): a rejected call never replaces the variable, never changes what the method
    dispatches to nor the `As` function, and — when no `When` existed yet — leaves the mocker exactly as it was, so the
    same ill-fitting stub is rejected again on every retry -/
theorem ifaceMainStep_rejected (m : Sig) (s s' : IS) (st : Step) (e : Rej) (h : ifaceMainStep m s st = (s', .error e)) :
    s'.set = s.set ∧ s'.imp = s.imp ∧ s'.fn = s.fn ∧ (s.when = none → s' = s) := by
  cases st with
  | again => simp [ifaceMainStep, pure, Except.pure] at h
  | holder hm => simp [ifaceMainStep, pure, Except.pure] at h
  | asFn f => simp [ifaceMainStep, pure, Except.pure] at h
  | lookup name found =>
    simp only [ifaceMainStep, Prod.mk.injEq] at h
    obtain ⟨rfl, _⟩ := h
    exact ⟨rfl, rfl, rfl, fun _ => rfl⟩
  | apply cb =>
    simp only [ifaceMainStep] at h
    split at h
    · simp only [Prod.mk.injEq] at h
      obtain ⟨rfl, _⟩ := h
      exact ⟨rfl, rfl, rfl, fun _ => rfl⟩
    · simp [pure, Except.pure] at h
  | ret _ | when_ _ _ | returns _ | andReturn _ | in_ _ | matchPairs _ =>
    simp only [ifaceMainStep] at h
    cases hw : s.when with
    | some w =>
      simp only [hw] at h
      have : s'.set = s.set ∧ s'.imp = s.imp ∧ s'.fn = s.fn := by
        have := congrArg Prod.fst h; simp at this; subst this; exact ⟨rfl, rfl, rfl⟩
      exact ⟨this.1, this.2.1, this.2.2, fun hn => by simp at hn⟩
    | none =>
      simp only [hw] at h
      have := ifaceFirst_rejected _ _ _ _ _ h
      subst this
      exact ⟨rfl, rfl, rfl, fun _ => rfl⟩

/-- interface mockers (iface.go:112-186), also when the test goes through `Interface(&structHoldingTheVariable)`: a rejected
    call never replaces the variable, never changes what the method dispatches to nor the `As` function, and — when no `When`
    existed yet — leaves the mocker exactly as it was, so the same ill-fitting stub is rejected again on every retry -/
theorem ifaceSeqStep_rejected (m : Sig) (s s' : IS) (st : Step) (e : Rej) (h : ifaceSeqStep m s st = (s', .error e)) :
    s'.set = s.set ∧ s'.imp = s.imp ∧ s'.fn = s.fn ∧ (s.when = none → s' = s) := by
  unfold ifaceSeqStep at h
  split at h
  · split at h
    · simp [pure, Except.pure] at h
    · simp only [Prod.mk.injEq] at h; obtain ⟨rfl, _⟩ := h; exact ⟨rfl, rfl, rfl, fun _ => rfl⟩
  · split at h
    · simp only [Prod.mk.injEq] at h; obtain ⟨rfl, _⟩ := h; exact ⟨rfl, rfl, rfl, fun _ => rfl⟩
    · exact ifaceMainStep_rejected m s s' _ e h

/-- **through the struct that holds the variable nothing is ever installed**: once the test configures via
    `Interface(&holder)` (a pointer to a non-interface with the variable's address), every configuration call is
    rejected or leaves the state untouched — the mock of the variable made earlier keeps answering -/
theorem holder_never_installs (m : Sig) (s : IS) (st : Step) (hv : s.via = true) (hc : isConfigStep st = true) :
    (ifaceSeqStep m s st).1 = s := by
  cases st <;> simp [isConfigStep] at hc <;> simp [ifaceSeqStep, hv, isConfigStep]

/-- hence retrying the same rejected first configuration of an interface method gives the same rejection -/
theorem iface_retry_same (m : Sig) (s s' : IS) (st : Step) (e : Rej) (hw : s.when = none)
    (h : ifaceSeqStep m s st = (s', .error e)) : ifaceSeqStep m s' st = (s', .error e) := by
  have := (ifaceSeqStep_rejected m s s' st e h).2.2.2 hw
  rw [this]; rw [this] at h; exact h

/-- satisfiable: an `As` function with one parameter too many, `Return` rejected twice in a row -/
example :
    let i : Ty := ⟨.int, 8, 25, false, 0⟩
    let c : Ty := ⟨.ptr, 8, idMockerICtx, false, 0⟩
    let s0 : IS := ⟨false, none, .none, ⟨[c, i, i], [i], false, i⟩, false⟩
    let r1 := ifaceSeqStep ⟨[i], [i], false, i⟩ s0 (.ret (some [.val i]))
    r1.2 = .error ⟨.illegalParam, [.traceable, .illegalParam, .argsNotMatch 3 2]⟩ ∧
    (ifaceSeqStep ⟨[i], [i], false, i⟩ r1.1 (.ret (some [.val i]))).2 = r1.2 := by
  refine ⟨rfl, rfl⟩

/-- interface.go:23 — a slice / array / map / chan of the interface type (anything that is not a pointer) handed to
    `Interface` is rejected with the typed cause even though `Elem()` is the interface and the method name resolves -/
theorem iface_non_pointer_container_rejected (k : Kind) (name : String) (m c : Sig) (first : Ty) (rest : List Ty)
    (hn : name ≠ "") (hk : hasElem k = true) (hc : c.ins = first :: rest)
    (hctx : first.kind = .ptr ∧ first.id = idMockerICtx) :
    ifaceCall (.value k true) name true m (.apply (.fn c)) =
      (.error ⟨.illegalParamType, [.traceable, .illegalParamType]⟩, false) ∧
    walk [ErrT.traceable, .illegalParamType] = some .illegalParamType := by
  have h0 : ifaceMethod (.value k true) name true = .ok () := by
    simp [ifaceMethod, hn, hk, pure, Except.pure]
  simp [ifaceCall, h0, applyIface, hc, hctx, rej, walk]

/-! ## G. The cause chain, once and for all: every rejection of every producer

`Rej.shape` lists the chain shapes per class; `Lemmas/C13L.lean` shows that every function of `Model/Reject.lean` that
can reject (`sigOf`, `signatureEquals`, `checkTrampolineFunc`, `patchValueChecks`, `replaceFunc`, `applyByFunc`,
`addResult`, `newDefaultMatch`, `checkParams`, `createWhen`, `whenReturn`, `createWS`, `wWhen`, `wReturn`, `wAndReturn`,
`wReturns`, `wIn`, `wMatches`, `whenStep`, `lookupCheck`, `nonFuncCall`, `exportCall`, `ifaceMethod`, `ifaceSignature`,
`applyIface`) only produces those shapes. -/

theorem shape_sound (r : Rej) (h : r.shape = true) :
    wellFormed r.chain = true ∧
    ∃ e, walk r.chain = some e ∧ e ≠ .traceable ∧ typedEnd r.cls e = true ∧
      (isStrCls r.cls = true → r.chain = [.str]) := by
  obtain ⟨cls, chain⟩ := r
  unfold Rej.shape at h
  simp only at h
  split at h
  · rename_i _ e
    have hne : e ≠ .traceable := by
      intro hh; subst hh
      cases cls <;> simp [typedEnd, isStrCls, isPatchCls] at h
    refine ⟨by simp [wellFormed, hne], e, rfl, hne, h, ?_⟩
    intro hs
    simp only at hs
    simp [typedEnd, hs] at h
    simp [h]
  · simp only [beq_iff_eq] at h; subst h
    exact ⟨rfl, .plain, rfl, by simp, rfl, by simp [isStrCls]⟩
  · simp only [beq_iff_eq] at h; subst h
    exact ⟨rfl, .illegalParamType, rfl, by simp, rfl, by simp [isStrCls]⟩
  · rename_i _ c
    simp only [Bool.and_eq_true, beq_iff_eq] at h
    obtain ⟨h1, h2⟩ := h; subst h1
    refine ⟨?_, .illegalParam, rfl, by simp, rfl, by simp [isStrCls]⟩
    cases c <;> simp [isTypedInner] at h2 <;> rfl
  · simp at h


theorem funcCall_shape (g : G) (tg : Target) (pre : Beh) (o : OriginV) (repl : Nat) (act : Action) (e : Rej)
    (h : (funcCall g tg pre o repl act).res = .error e) : e.shape = true := by
  cases act with
  | apply cb =>
    simp only [funcCall] at h
    cases h1 : applyByFunc g tg cb o repl with
    | mk g1 r => simp only [h1] at h; subst h; exact applyByFunc_shape _ _ _ _ _ _ _ h1
  | ret vals =>
    simp only [funcCall] at h
    cases h0 : createWhen tg.sig none (firstReturnValues vals) false with
    | error e0 => simp only [h0, Except.error.injEq] at h; subst h; exact good_createWhen _ _ _ _ _ h0
    | ok w =>
      simp only [h0] at h
      cases h1 : applyByFunc g tg (.fn tg.sig) o repl with
      | mk g1 r => simp only [h1] at h; subst h; exact applyByFunc_shape _ _ _ _ _ _ _ h1
  | when_ args ret =>
    simp only [funcCall] at h
    cases h0 : createWhen tg.sig args none false with
    | error e0 => simp only [h0, Except.error.injEq] at h; subst h; exact good_createWhen _ _ _ _ _ h0
    | ok w =>
      simp only [h0] at h
      cases h1 : applyByFunc g tg (.fn tg.sig) o repl with
      | mk g1 r =>
        cases r with
        | error e1 => simp only [h1, Except.error.injEq] at h; subst h; exact applyByFunc_shape _ _ _ _ _ _ _ h1
        | ok u =>
          simp only [h1] at h
          cases ret with
          | none => simp [pure, Except.pure] at h
          | some vals =>
            simp only at h
            cases h2 : whenReturn w tg.sig vals with
            | error e2 => simp only [h2, Except.error.injEq] at h; subst h; exact good_whenReturn _ _ _ _ h2
            | ok w2 => simp [h2, pure, Except.pure] at h

theorem methodCall_shape (g : G) (name : String) (found : Bool) (tg : Target) (repl : Nat) (act : Action) (e : Rej)
    (h : (methodCall g name found tg repl act).res = .error e) : e.shape = true := by
  unfold methodCall at h
  by_cases hn : name = ""
  · simp only [hn, if_true, rStr, rej, Except.error.injEq] at h; subst h; rfl
  · by_cases hf : found = true
    · simp only [hn, hf, if_false, Bool.not_true, Bool.false_eq_true] at h
      cases act with
      | apply cb =>
        simp only at h
        cases h1 : applyByFunc g tg cb .none repl with
        | mk g1 r => simp only [h1] at h; subst h; exact applyByFunc_shape _ _ _ _ _ _ _ h1
      | ret vals =>
        simp only at h
        cases h0 : createWhen tg.sig none (firstReturnValues vals) true with
        | error e0 => simp only [h0, Except.error.injEq] at h; subst h; exact good_createWhen _ _ _ _ _ h0
        | ok w =>
          simp only [h0] at h
          cases h1 : applyByFunc g tg (.fn tg.sig) .none repl with
          | mk g1 r => simp only [h1] at h; subst h; exact applyByFunc_shape _ _ _ _ _ _ _ h1
      | when_ args ret =>
        simp only at h
        cases h0 : createWhen tg.sig args none true with
        | error e0 => simp only [h0, Except.error.injEq] at h; subst h; exact good_createWhen _ _ _ _ _ h0
        | ok w =>
          simp only [h0] at h
          cases h1 : applyByFunc g tg (.fn tg.sig) .none repl with
          | mk g1 r =>
            cases r with
            | error e1 => simp only [h1, Except.error.injEq] at h; subst h; exact applyByFunc_shape _ _ _ _ _ _ _ h1
            | ok u =>
              simp only [h1] at h
              cases ret with
              | none => simp [pure, Except.pure] at h
              | some vals =>
                simp only at h
                cases h2 : whenReturn w tg.sig vals with
                | error e2 => simp only [h2, Except.error.injEq] at h; subst h; exact good_whenReturn _ _ _ _ h2
                | ok w2 => simp [h2, pure, Except.pure] at h
    · simp only [hn, hf, if_false, Bool.not_false, if_true, rStr, rej, Except.error.injEq] at h; subst h; rfl

theorem ifaceCall_shape (v : IfaceVar) (name : String) (found : Bool) (m : Sig) (act : IfaceAction) (e : Rej) (b : Bool)
    (h : ifaceCall v name found m act = (.error e, b)) : e.shape = true := by
  unfold ifaceCall at h
  cases h0 : ifaceMethod v name found with
  | error e0 => simp only [h0, Prod.mk.injEq, Except.error.injEq] at h; obtain ⟨rfl, _⟩ := h; exact good_ifaceMethod _ _ _ _ h0
  | ok u =>
    simp only [h0] at h
    cases act with
    | apply cb =>
      simp only at h
      cases h1 : applyIface v m cb with
      | error e1 => simp only [h1, Prod.mk.injEq, Except.error.injEq] at h; obtain ⟨rfl, _⟩ := h; exact good_applyIface _ _ _ _ h1
      | ok u1 => simp [h1, pure, Except.pure] at h
    | asRet fn vals =>
      simp only at h
      cases h1 : createWhen fn none (firstReturnValues vals) true with
      | error e1 => simp only [h1, Prod.mk.injEq, Except.error.injEq] at h; obtain ⟨rfl, _⟩ := h; exact good_createWhen _ _ _ _ _ h1
      | ok w =>
        simp only [h1] at h
        cases h2 : applyIface v m (.fn fn) with
        | error e2 => simp only [h2, Prod.mk.injEq, Except.error.injEq] at h; obtain ⟨rfl, _⟩ := h; exact good_applyIface _ _ _ _ h2
        | ok u2 => simp [h2, pure, Except.pure] at h
    | asWhen fn args ret =>
      simp only at h
      cases h1 : createWhen fn args none true with
      | error e1 => simp only [h1, Prod.mk.injEq, Except.error.injEq] at h; obtain ⟨rfl, _⟩ := h; exact good_createWhen _ _ _ _ _ h1
      | ok w =>
        simp only [h1] at h
        cases h2 : applyIface v m (.fn fn) with
        | error e2 => simp only [h2, Prod.mk.injEq, Except.error.injEq] at h; obtain ⟨rfl, _⟩ := h; exact good_applyIface _ _ _ _ h2
        | ok u2 =>
          simp only [h2] at h
          cases ret with
          | none => simp [pure, Except.pure] at h
          | some vals =>
            simp only at h
            cases h3 : whenReturn w fn vals with
            | error e3 => simp only [h3, Prod.mk.injEq, Except.error.injEq] at h; obtain ⟨rfl, _⟩ := h; exact good_whenReturn _ _ _ _ h3
            | ok w3 => simp [h3, pure, Except.pure] at h

theorem seqFirst_shape (tg : Target) (isM : Bool) (repl : Nat) (ms ms' : MS) (st : Step) (e : Rej)
    (h : seqFirst tg isM repl ms st = (ms', .error e)) : e.shape = true := by
  unfold seqFirst at h
  simp only at h
  split at h
  · rename_i e1 h1
    simp only [Prod.mk.injEq, Except.error.injEq] at h; obtain ⟨_, rfl⟩ := h
    split at h1
    · exact good_createWS _ _ _ _ _ _ h1
    · exact good_createWS _ _ _ _ _ _ h1
    · exact good_createWS _ _ _ _ _ _ h1
    · simp only [rStr, rej, Except.error.injEq] at h1; subst h1; rfl
  · split at h
    · rename_i w0 _ _ e1 h1
      simp only [Prod.mk.injEq, Except.error.injEq] at h; obtain ⟨_, rfl⟩ := h
      split at h1
      · exact wReturns_shape _ _ _ _ _ _ h1
      · simp [pure, Except.pure] at h1
    · split at h
      · rename_i g1 e1 h1
        simp only [Prod.mk.injEq, Except.error.injEq] at h; obtain ⟨_, rfl⟩ := h
        exact applyByFunc_shape _ _ _ _ _ _ _ h1
      · simp [pure, Except.pure] at h

theorem seqStep_shape (tg : Target) (isM : Bool) (repl : Nat) (ms ms' : MS) (st : Step) (e : Rej)
    (h : seqStep tg isM repl ms st = (ms', .error e)) : e.shape = true := by
  cases st with
  | again => simp [seqStep, pure, Except.pure] at h
  | asFn f => simp [seqStep, pure, Except.pure] at h
  | holder hm => simp [seqStep, pure, Except.pure] at h
  | lookup name found =>
    simp only [seqStep, Prod.mk.injEq] at h
    exact good_lookupCheck _ _ _ h.2
  | apply cb =>
    simp only [seqStep] at h
    cases h1 : applyByFunc ms.g tg cb .none repl with
    | mk g1 r =>
      cases r with
      | error e1 => simp only [h1, Prod.mk.injEq, Except.error.injEq] at h; obtain ⟨_, rfl⟩ := h; exact applyByFunc_shape _ _ _ _ _ _ _ h1
      | ok u => simp [h1, pure, Except.pure] at h
  | ret _ | when_ _ _ | returns _ | andReturn _ | in_ _ | matchPairs _ =>
    simp only [seqStep] at h
    cases hw : ms.when with
    | some w =>
      simp only [hw] at h
      have h2 := congrArg Prod.snd h
      simp only at h2
      exact whenStep_shape _ _ _ _ _ _ (Prod.ext rfl h2)
    | none =>
      simp only [hw] at h
      exact seqFirst_shape _ _ _ _ _ _ _ h

theorem ifaceFirst_shape (m : Sig) (s s' : IS) (st : Step) (e : Rej)
    (h : ifaceFirst m s st = (s', .error e)) : e.shape = true := by
  unfold ifaceFirst at h
  simp only at h
  split at h
  · rename_i e1 h1
    simp only [Prod.mk.injEq, Except.error.injEq] at h; obtain ⟨_, rfl⟩ := h
    split at h1
    · exact good_createWS _ _ _ _ _ _ h1
    · exact good_createWS _ _ _ _ _ _ h1
    · simp only [bind, Except.bind] at h1
      split at h1
      · rename_i e2 h2; simp only [Except.error.injEq] at h1; subst h1; exact good_createWS _ _ _ _ _ _ h2
      · split at h1
        · simp [pure, Except.pure] at h1
        · rename_i w1 e2 h3; simp only [Except.error.injEq] at h1; subst h1; exact wReturns_shape _ _ _ _ _ _ h3
    · simp only [rStr, rej, Except.error.injEq] at h1; subst h1; rfl
  · split at h
    · rename_i e1 h1
      simp only [Prod.mk.injEq, Except.error.injEq] at h; obtain ⟨_, rfl⟩ := h
      exact good_applyIface _ _ _ _ h1
    · simp [pure, Except.pure] at h

theorem ifaceMainStep_shape (m : Sig) (s s' : IS) (st : Step) (e : Rej)
    (h : ifaceMainStep m s st = (s', .error e)) : e.shape = true := by
  cases st with
  | again => simp [ifaceMainStep, pure, Except.pure] at h
  | asFn f => simp [ifaceMainStep, pure, Except.pure] at h
  | holder hm => simp [ifaceMainStep, pure, Except.pure] at h
  | lookup name found =>
    simp only [ifaceMainStep, Prod.mk.injEq] at h
    exact good_lookupCheck _ _ _ h.2
  | apply cb =>
    simp only [ifaceMainStep] at h
    split at h
    · rename_i e1 h1
      simp only [Prod.mk.injEq, Except.error.injEq] at h; obtain ⟨_, rfl⟩ := h
      exact good_applyIface _ _ _ _ h1
    · simp [pure, Except.pure] at h
  | ret _ | when_ _ _ | returns _ | andReturn _ | in_ _ | matchPairs _ =>
    simp only [ifaceMainStep] at h
    cases hw : s.when with
    | some w =>
      simp only [hw] at h
      have h2 := congrArg Prod.snd h
      simp only at h2
      exact whenStep_shape _ _ _ _ _ _ (Prod.ext rfl h2)
    | none =>
      simp only [hw] at h
      exact ifaceFirst_shape _ _ _ _ _ h

theorem good_holderStep (m fn : Sig) (st : Step) : Good (holderStep m fn st) := by
  cases st with
  | apply cb => unfold holderStep; exact good_applyIface _ _ _
  | ret v => unfold holderStep; exact good_bind _ _ (good_createWS _ _ _ _ _) (fun _ => good_applyIface _ _ _)
  | when_ a hit => unfold holderStep; exact good_bind _ _ (good_createWS _ _ _ _ _) (fun _ => good_applyIface _ _ _)
  | returns gs =>
    unfold holderStep
    refine good_bind _ _ (good_createWS _ _ _ _ _) (fun w0 => ?_)
    intro r h
    split at h
    · rename_i e1 h1; simp only [Except.error.injEq] at h; subst h; exact wReturns_shape _ _ _ _ _ _ h1
    · exact good_applyIface _ _ _ r h
  | andReturn _ | in_ _ | matchPairs _ | again | lookup _ _ | asFn _ | holder _ => unfold holderStep; exact good_pure _

theorem ifaceSeqStep_shape (m : Sig) (s s' : IS) (st : Step) (e : Rej)
    (h : ifaceSeqStep m s st = (s', .error e)) : e.shape = true := by
  unfold ifaceSeqStep at h
  split at h
  · split at h
    · simp [pure, Except.pure] at h
    · simp only [Prod.mk.injEq, rStr, rej, Except.error.injEq] at h; obtain ⟨_, rfl⟩ := h; rfl
  · split at h
    · simp only [Prod.mk.injEq] at h; exact good_holderStep _ _ _ _ h.2
    · exact ifaceMainStep_shape m s s' _ e h

theorem fmApply_shape (g g' : G) (tg : Target) (cb : V) (repl : Nat) (e : Rej)
    (h : fmApply g tg cb repl = (g', .error e)) : e.shape = true := by
  unfold fmApply at h
  split at h
  · split at h
    · rename_i g1 e1 h1
      simp only [Prod.mk.injEq, Except.error.injEq] at h; obtain ⟨_, rfl⟩ := h
      have := replaceFunc_shape _ _ _ _ _ _ _ h1
      exact shape_asPanicString _ this.1 (Or.inl this.2)
    · simp [pure, Except.pure] at h
  · simp only [Prod.mk.injEq, rStr, rej, Except.error.injEq] at h; obtain ⟨_, rfl⟩ := h; rfl

/-- patch.go:139 (goom 03ba08b): on the by-name route of a method-value target **a replacement that is not a function is
    rejected** — a nil, an int, a `*int`, a slice — with the state literally untouched -/
theorem fm_nonfunction_rejected (g : G) (tg : Target) (cb : V) (repl : Nat) (h : ∀ s, cb ≠ .fn s) :
    fmApply g tg cb repl = (g, .error ⟨.replKind, [.str]⟩) := by
  cases cb with
  | fn s => exact absurd rfl (h s)
  | nil | val _ | expr => rfl

example : fmApply G.init { id := 0, sig := default } (.val ⟨.ptr, 8, 34, false, 0⟩) 1 = (G.init, .error ⟨.replKind, [.str]⟩) :=
  fm_nonfunction_rejected _ _ _ _ (by intro s hs; cases hs)

theorem fmCall_shape (g : G) (tg : Target) (msig : Sig) (repl : Nat) (act : Action) (e : Rej)
    (h : (fmCall g tg msig repl act).2.1 = .error e) : e.shape = true := by
  cases act with
  | apply cb =>
    simp only [fmCall] at h
    cases h1 : fmApply g tg cb repl with
    | mk g1 r =>
      cases r with
      | error e1 => simp only [h1, Except.error.injEq] at h; subst h; exact fmApply_shape _ _ _ _ _ _ h1
      | ok u => simp [h1, pure, Except.pure] at h
  | ret vals =>
    simp only [fmCall] at h
    cases h0 : createWhen msig none (firstReturnValues vals) false with
    | error e0 => simp only [h0, Except.error.injEq] at h; subst h; exact good_createWhen _ _ _ _ _ h0
    | ok w =>
      simp only [h0] at h
      cases h1 : fmApply g tg (.fn msig) repl with
      | mk g1 r =>
        cases r with
        | error e1 => simp only [h1, Except.error.injEq] at h; subst h; exact fmApply_shape _ _ _ _ _ _ h1
        | ok u => simp [h1, pure, Except.pure] at h
  | when_ args ret =>
    simp only [fmCall] at h
    cases h0 : createWhen msig args none false with
    | error e0 => simp only [h0, Except.error.injEq] at h; subst h; exact good_createWhen _ _ _ _ _ h0
    | ok w =>
      simp only [h0] at h
      cases h1 : fmApply g tg (.fn msig) repl with
      | mk g1 r =>
        cases r with
        | error e1 => simp only [h1, Except.error.injEq] at h; subst h; exact fmApply_shape _ _ _ _ _ _ h1
        | ok u =>
          simp only [h1] at h
          cases ret with
          | none => simp [pure, Except.pure] at h
          | some vals =>
            simp only at h
            cases h2 : whenReturn w msig vals with
            | error e2 => simp only [h2, Except.error.injEq] at h; subst h; exact good_whenReturn _ _ _ _ h2
            | ok w2 => simp [h2, pure, Except.pure] at h

/-- every way a configuration call of the model can be rejected -/
inductive Produced : Rej → Prop
  | func (g : G) (tg : Target) (pre : Beh) (o : OriginV) (repl : Nat) (act : Action) (e : Rej) :
      (funcCall g tg pre o repl act).res = .error e → Produced e
  | nonFunc (k : Kind) (e : Rej) : nonFuncCall k = .error e → Produced e
  | method (g : G) (name : String) (found : Bool) (tg : Target) (repl : Nat) (act : Action) (e : Rej) :
      (methodCall g name found tg repl act).res = .error e → Produced e
  | export_ (form : ExportForm) (a b c : Bool) (e : Rej) : exportCall form a b c = .error e → Produced e
  | iface (v : IfaceVar) (name : String) (found : Bool) (m : Sig) (act : IfaceAction) (e : Rej) (b : Bool) :
      ifaceCall v name found m act = (.error e, b) → Produced e
  | seq (tg : Target) (isM : Bool) (repl : Nat) (ms ms' : MS) (st : Step) (e : Rej) :
      seqStep tg isM repl ms st = (ms', .error e) → Produced e
  | ifaceSeq (m : Sig) (s s' : IS) (st : Step) (e : Rej) : ifaceSeqStep m s st = (s', .error e) → Produced e
  | direct (g g' : G) (tg : Target) (cb : V) (o : OriginV) (repl : Nat) (e : Rej) :      -- Func(&fnVar).Apply, ExportFunc(..).As(..).Apply
      applyByFunc g tg cb o repl = (g', .error e) → Produced e
  | fm (g : G) (tg : Target) (msig : Sig) (repl : Nat) (act : Action) (e : Rej) :        -- Func(obj.M).<action>
      (fmCall g tg msig repl act).2.1 = .error e → Produced e

theorem produced_shape (r : Rej) (h : Produced r) : r.shape = true := by
  cases h with
  | func g tg pre o repl act e h => exact funcCall_shape _ _ _ _ _ _ _ h
  | nonFunc k e h => exact good_nonFuncCall _ _ h
  | method g name found tg repl act e h => exact methodCall_shape _ _ _ _ _ _ _ h
  | export_ form a b c e h => exact good_exportCall _ _ _ _ _ h
  | iface v name found m act e b h => exact ifaceCall_shape _ _ _ _ _ _ _ h
  | seq tg isM repl ms ms' st e h => exact seqStep_shape _ _ _ _ _ _ _ h
  | ifaceSeq m s s' st e h => exact ifaceSeqStep_shape _ _ _ _ _ h
  | direct g g' tg cb o repl e h => exact applyByFunc_shape _ _ _ _ _ _ _ h
  | fm g tg msig repl act e h => exact fmCall_shape _ _ _ _ _ _ h

/-! ### the Go side: what the probe (and erro.Cause) does with the error value -/

/-- the probe's chain listing followed by the model's `walk` is the Go walk -/
theorem probe_walk_eq_model_walk : ∀ e : GoErr, walk (probeChain e) = some (erroWalk e)
  | .leaf t => by simp [probeChain, walk, erroWalk]
  | .wrap t c => by
    have ih := probe_walk_eq_model_walk c
    cases hpc : probeChain c with
    | nil => cases c <;> simp [probeChain] at hpc <;> split at hpc <;> simp at hpc
    | cons x xs =>
      rw [hpc] at ih
      cases t <;> simp [probeChain, exposesCause, erroWalk, walk, hpc, ih]

/-- `erro.Cause` on the Go value is the model's `cause` on the listed chain -/
theorem probe_cause_eq_model_cause (e : GoErr) :
    (erroCause e).map probeChain = cause (probeChain e) := by
  cases e with
  | leaf t => simp [erroCause, probeChain, cause]
  | wrap t c =>
    cases hpc : probeChain c with
    | nil => cases c <;> simp [probeChain] at hpc <;> split at hpc <;> simp at hpc
    | cons x xs => cases t <;> simp [erroCause, probeChain, exposesCause, cause, hpc]

theorem toGo_probeChain : ∀ (c : List ErrT), wellFormed c = true → ∃ g, toGo c = some g ∧ probeChain g = c
  | [], h => by simp [wellFormed] at h
  | [t], _ => ⟨.leaf t, rfl, rfl⟩
  | t :: u :: rest, h => by
    simp only [wellFormed, Bool.and_eq_true] at h
    have ⟨g, hg, hp⟩ := toGo_probeChain (u :: rest) h.2
    exact ⟨.wrap t g, by simp [toGo, hg], by simp [probeChain, h.1, hp]⟩


/-- **The cause-chain clause, for every rejection of every producer.**  Whatever configuration call is rejected
    (`Produced r`):
    * the chain is well formed — every element but the last is of a type that stores its cause, so each wrapper's cause
      is the next element, and it denotes a Go error value `g` whose chain as the probe lists it is exactly `r.chain`;
    * the `erro.Cause` walk over `g` (erro/traceable.go:16) terminates at a node `e` that is not a wrapper
      (`*TraceableError`);
    * `e` is the typed cause assigned to the class (`typedEnd`): `*ArgsNotMatch`, `*ReturnsNotMatch`, `*IllegalParam`,
      `*IllegalParamType`, the reflect / runtime panic, the plain lookup error — or the panic STRING for the classes
      of `isStrCls`, whose chain then is exactly `[str]`;
    * and the model's `walk` computes the same node. -/
theorem every_rejection_walks_to_its_typed_cause (r : Rej) (h : Produced r) :
    wellFormed r.chain = true ∧
    ∃ (g : GoErr) (e : ErrT), toGo r.chain = some g ∧ probeChain g = r.chain ∧
      erroWalk g = e ∧ walk r.chain = some e ∧ e ≠ .traceable ∧ typedEnd r.cls e = true ∧
      (isStrCls r.cls = true → r.chain = [.str]) := by
  have ⟨hw, e, hwalk, hne, hty, hstr⟩ := shape_sound r (produced_shape r h)
  have ⟨g, hg, hp⟩ := toGo_probeChain r.chain hw
  refine ⟨hw, g, e, hg, hp, ?_, hwalk, hne, hty, hstr⟩
  have := probe_walk_eq_model_walk g
  rw [hp, hwalk] at this
  exact (Option.some.inj this).symm

/-- non-vacuous: an interface callback with one parameter too many is `Produced`, its chain has three nodes, and the walk
    stops at `*IllegalParam` -/
example :
    let i : Ty := ⟨.int, 8, 25, false, 0⟩
    let c : Ty := ⟨.ptr, 8, idMockerICtx, false, 0⟩
    let r : Rej := ⟨.illegalParam, [.traceable, .illegalParam, .argsNotMatch 3 2]⟩
    Produced r ∧ walk r.chain = some .illegalParam := by
  refine ⟨Produced.iface .ptrIface "A" true ⟨[⟨.int, 8, 25, false, 0⟩], [⟨.int, 8, 25, false, 0⟩], false, default⟩
    (.apply (.fn ⟨[⟨.ptr, 8, idMockerICtx, false, 0⟩, ⟨.int, 8, 25, false, 0⟩, ⟨.int, 8, 25, false, 0⟩], [⟨.int, 8, 25, false, 0⟩], false, default⟩)) _ false rfl, rfl⟩

/-! ## H. Round-5 additions: CauseBy, the image of an unmocked target, interface kinds for every action, misfitting As() -/

/-- erro/traceable.go:26 `CauseBy`, transcribed as `causeByDepth`: standing at a node of depth `d`, the loop recognises the node
    of depth `k` **iff** `k` is one of the leading `*TraceableError` nodes from here on (`d ≤ k < d + leadingTraceable chain`):
    every Traceable node of the walk is identified, nothing below the first non-Traceable node and nothing else is. -/
theorem causeBy_spec : ∀ (e : GoErr) (d k : Nat),
    causeByDepth e d k = true ↔ (d ≤ k ∧ k - d < leadingTraceable (probeChain e))
  | .leaf t, d, k => by
    cases t <;> simp [causeByDepth, probeChain, leadingTraceable] <;> omega
  | .wrap t c, d, k => by
    have ih := causeBy_spec c (d + 1) k
    cases t <;> simp [causeByDepth, probeChain, exposesCause, leadingTraceable, ih] <;> omega

example : causeByDepth (.wrap .traceable (.wrap .illegalParam (.leaf (.argsNotMatch 3 2)))) 0 0 = true ∧
    causeByDepth (.wrap .traceable (.wrap .illegalParam (.leaf (.argsNotMatch 3 2)))) 0 1 = false := by decide

/-- "executable image unchanged" stated on `mocked`, not on the registry: if the target's entry is pristine, a rejected
    `Apply`/`Return`/`When` leaves the whole image exactly as it was — whatever the registry holds (e.g. the `applied` entry a
    `Reset` leaves behind: guard.go:36 then only re-writes the pristine bytes) -/
theorem rejected_unmocked_image_unchanged (g g' : G) (tg : Target) (cb : V) (o : OriginV) (repl : Nat) (e : Rej)
    (h : applyByFunc g tg cb o repl = (g', .error e)) (hm : mocked g tg.id = false) : g'.text = g.text ∧ g'.tramp = g.tramp := by
  have ⟨hn, hor⟩ := applyByFunc_rejected _ _ _ _ _ _ _ h
  refine ⟨?_, hn.tramp⟩
  funext x
  by_cases hx : x = tg.id
  · subst hx
    have h1 := hn.not_mocked _ hm
    simp only [mocked, Option.isSome_eq_false_iff, Option.isNone_iff_eq_none] at h1 hm
    rw [h1, hm]
  · -- other targets: only `unpatchValue`/`upd` at `tg.id` ever touch the text
    cases hor with
    | inl hg => rw [hg]
    | inr _ =>
      unfold applyByFunc at h
      cases h1 : checkTrampolineFunc o with
      | error e1 => simp only [h1, Prod.mk.injEq] at h; rw [← h.1]
      | ok tr =>
        simp only [h1] at h
        cases h2 : patchValueChecks (.fn tg.sig) cb with
        | error e2 => simp only [h2, Prod.mk.injEq] at h; rw [← h.1]
        | ok u =>
          simp only [h2] at h
          cases h3 : replaceFunc g tg.id tg.fsize repl tr with
          | mk g1 r =>
            cases r with
            | ok u2 => simp [h3, pure, Except.pure] at h
            | error e3 =>
              simp only [h3, Prod.mk.injEq] at h
              rw [← h.1]
              -- text of g1 at x ≠ tg.id
              unfold replaceFunc at h3
              have key : ∀ g0 : G, g0 = (if (g.patches tg.id).isSome then unpatchValue g tg.id else g) → g0.text x = g.text x := by
                intro g0 hg0
                by_cases hp : (g.patches tg.id).isSome
                · simp only [hp, if_true] at hg0; subst hg0
                  unfold unpatchValue
                  split
                  · rfl
                  · split <;> simp [upd, hx]
                · simp only [hp] at hg0; subst hg0; rfl
              generalize hg1 : (if (g.patches tg.id).isSome then unpatchValue g tg.id else g) = g0 at h3
              have hk := key g0 hg1.symm
              simp only at h3
              (repeat' (split at h3)) <;> first
                | (simp only [Prod.mk.injEq] at h3; rw [← h3.1]; exact hk)
                | (simp [pure, Except.pure] at h3)

/-- **a non-pointer or non-interface handed to `Interface` is rejected for EVERY action** — `Apply`, `As(fn).Return`,
    `As(fn).When[.Return]` — and the variable is never replaced -/
theorem iface_kind_rejected_any_action (v : IfaceVar) (hv : v ≠ .ptrIface) (name : String) (found : Bool) (m : Sig)
    (act : IfaceAction) : ∃ e, ifaceCall v name found m act = (.error e, false) := by
  have happ : ∀ cb, ∃ e, applyIface v m cb = .error e := by
    intro cb
    have ⟨e, he⟩ := iface_kind_rejected v hv "x" true m cb
    unfold ifaceCall at he
    cases h0 : ifaceMethod v "x" true with
    | error e0 =>
      -- the method lookup already failed for this shape; applyIface itself still rejects
      unfold applyIface
      cases cb with
      | nil => exact ⟨_, rfl⟩
      | val t => exact ⟨_, rfl⟩
      | expr => exact ⟨_, rfl⟩
      | fn c =>
        simp only
        cases hc : c.ins with
        | nil => exact ⟨_, rfl⟩
        | cons first rest =>
          simp only
          split
          · exact ⟨_, rfl⟩
          · cases v with
            | ptrIface => exact absurd rfl hv
            | value k hm => exact ⟨_, rfl⟩
            | nilValue => exact ⟨_, rfl⟩
            | ptrTo k hm => exact ⟨_, rfl⟩
    | ok u =>
      simp only [h0] at he
      cases h1 : applyIface v m cb with
      | error e1 => exact ⟨e1, rfl⟩
      | ok u1 => simp [h1, pure, Except.pure] at he
  unfold ifaceCall
  cases h0 : ifaceMethod v name found with
  | error e0 => exact ⟨e0, rfl⟩
  | ok u =>
    simp only
    cases act with
    | apply cb =>
      have ⟨e, he⟩ := happ cb
      exact ⟨e, by simp [he]⟩
    | asRet fn vals =>
      simp only
      cases h1 : createWhen fn none (firstReturnValues vals) true with
      | error e1 => exact ⟨e1, rfl⟩
      | ok w => have ⟨e, he⟩ := happ (.fn fn); exact ⟨e, by simp [he]⟩
    | asWhen fn args ret =>
      simp only
      cases h1 : createWhen fn args none true with
      | error e1 => exact ⟨e1, rfl⟩
      | ok w => have ⟨e, he⟩ := happ (.fn fn); exact ⟨e, by simp [he]⟩

/-- **an `As(fn)` stub that does not fit the interface method** (wrong parameter count after `*IContext`, wrong result count,
    a slot of another size) makes the first `Return` / `When` / `Returns` on that mocker fail, and the mocker, the variable
    and what the method dispatches to are exactly as before -/
theorem iface_as_misfit_rejected (m : Sig) (s : IS) (st : Step) (hw : s.when = none) (hvia : s.via = false)
    (hst : (∃ v, st = .ret v) ∨ (∃ a hit, st = .when_ a hit) ∨ (∃ gs, st = .returns gs))
    (hbad : ¬ (s.fn.ins.length = m.ins.length + 1 ∧ m.ins.map (·.size) = (s.fn.ins.drop 1).map (·.size) ∧
               m.outs.map (·.size) = s.fn.outs.map (·.size))) :
    ∃ e, ifaceSeqStep m s st = (s, .error e) := by
  have happ : ∃ e, applyIface .ptrIface m (.fn s.fn) = .error e := by
    cases h : applyIface .ptrIface m (.fn s.fn) with
    | error e => exact ⟨e, rfl⟩
    | ok u =>
      exfalso
      unfold applyIface at h
      simp only at h
      cases hc : s.fn.ins with
      | nil => simp [hc, rRuntime, rej] at h
      | cons first rest =>
        simp only [hc] at h
        split at h
        · simp [rej] at h
        · exact hbad ((ifaceSignature_ok_iff m s.fn).1 h)
  obtain ⟨e, he⟩ := happ
  have hfirst : ∀ st', ∃ e', ifaceFirst m s st' = (s, .error e') := by
    intro st'
    unfold ifaceFirst
    simp only
    split
    · exact ⟨_, rfl⟩
    · simp only [he]; exact ⟨_, rfl⟩
  rcases hst with ⟨v, rfl⟩ | ⟨a, hit, rfl⟩ | ⟨gs, rfl⟩
  all_goals
    simp only [ifaceSeqStep, hvia, Bool.false_and, Bool.false_eq_true, if_false, ifaceMainStep, hw]
    exact hfirst _

/-! ### the cause-chain clause at full strength, and what is proved of it -/

/-- a node that is an error VALUE of a type of package erro (not a panic string, not a reflect/runtime panic, not a wrapper) -/
def isTypedError : ErrT → Bool
  | .argsNotMatch _ _ | .returnsNotMatch _ _ | .illegalParamType => true
  | _ => false

/-- THE CLAUSE AS THE PROPERTY STATES IT: every rejected configuration call reports an error whose `erro.Cause` walk ends at a
    typed cause.  NOT true of the code as it is — `Findings/C13F.lean` refutes it on the model at two witnesses, recorded as
    known findings C13-K2 (string / reflect panics carry no error value) and C13-K3 (the walk stops at `*IllegalParam`). -/
def CauseClauseFull : Prop := ∀ r, Produced r → ∃ e, walk r.chain = some e ∧ isTypedError e = true

/-- the part that holds: whenever the rejection's class is one of the typed ones (`*ArgsNotMatch`, `*ReturnsNotMatch`,
    `*IllegalParamType` — too few condition arguments / return values on the first call, a non-`*IContext` first parameter,
    a pointer to a non-interface), the walk does end at that typed error.  Missing for the full clause: the classes of
    `isStrCls`, reflect/runtime panics, the interface-signature class (walk ends at `*IllegalParam`) and the by-name lookup. -/
theorem cause_clause_partial (r : Rej) (h : Produced r)
    (hc : r.cls = .argsNotMatch ∨ r.cls = .returnsNotMatch ∨ r.cls = .illegalParamType) :
    ∃ e, walk r.chain = some e ∧ isTypedError e = true := by
  have ⟨_, e, hw, _, hty, _⟩ := shape_sound r (produced_shape r h)
  refine ⟨e, hw, ?_⟩
  rcases hc with hc | hc | hc <;> rw [hc] at hty <;> cases e <;> simp [typedEnd, isStrCls, isPatchCls] at hty <;> rfl

example : ∃ r, Produced r ∧ r.cls = .returnsNotMatch :=
  ⟨⟨.returnsNotMatch, [.returnsNotMatch 0 1]⟩,
   Produced.func G.init { id := 0, sig := ⟨[], [⟨.int, 8, 25, false, 0⟩], false, default⟩ } .orig .none 1 (.ret none) _ rfl, rfl⟩

/-! ## I. A first `Returns()` without values (repaired by goom 1bc5b96) -/

/-- **a first `Returns()` with no value on a function or method WITH results is rejected** with the typed cause
    `*erro.ReturnsNotMatch(0, want)` — which is where the `erro.Cause` walk ends — and it leaves nothing behind: the image,
    the registry, the mocker (no `When` is kept) and what the entry jumps to are exactly as before.  (Before the repair the
    call was accepted and the target patched with a stub that had nothing to answer.) -/
theorem first_returns_empty_rejected (tg : Target) (isM : Bool) (repl : Nat) (ms : MS) (hw : ms.when = none)
    (h : 0 < tg.sig.outs.length) :
    seqStep tg isM repl ms (.returns []) = (ms, .error ⟨.returnsNotMatch, [.returnsNotMatch 0 tg.sig.outs.length]⟩) ∧
    walk [ErrT.returnsNotMatch 0 tg.sig.outs.length] = some (.returnsNotMatch 0 tg.sig.outs.length) := by
  have hc := (too_few_returns_rejected tg.sig none [] isM (by simpa using h)).1
  refine ⟨?_, rfl⟩
  simp [seqStep, hw, normFirst, seqFirst, createWS, firstReturnValues, hc, bind, Except.bind]

/-- in every case a first `Returns()` IS `Return()` (mocker.go `if len(values) == 0 { return m.Return() }`): on a
    result-less target it is therefore accepted, applied, and the empty default answers -/
theorem first_returns_empty_is_return (tg : Target) (isM : Bool) (repl : Nat) (ms : MS) (hw : ms.when = none) :
    seqStep tg isM repl ms (.returns []) = seqStep tg isM repl ms (.ret none) := by
  simp [seqStep, hw, normFirst]

example : (seqStep { id := 0, sig := ⟨[], [], false, default⟩ } false 1 ⟨G.init, none, .none⟩ (.returns [])).2 = .ok () := rfl

/-- the same for interface-method mockers (iface.go): with an `As` function that has results, a first `Returns()` is
    rejected with `*erro.ReturnsNotMatch` and the mocker and the variable are untouched -/
theorem iface_first_returns_empty_rejected (m : Sig) (s : IS) (hw : s.when = none) (hvia : s.via = false)
    (h : 0 < s.fn.outs.length) :
    ifaceSeqStep m s (.returns []) = (s, .error ⟨.returnsNotMatch, [.returnsNotMatch 0 s.fn.outs.length]⟩) := by
  have hc := (too_few_returns_rejected s.fn none [] true (by simpa using h)).1
  simp [ifaceSeqStep, hvia, ifaceMainStep, hw, normFirst, ifaceFirst, createWS, firstReturnValues, hc, bind, Except.bind]

/-- non-vacuous: `Func(f).Returns()` on `func(int) int` -/
example :
    let i : Ty := ⟨.int, 8, 25, false, 0⟩
    seqStep { id := 0, sig := ⟨[i], [i], false, i⟩ } false 1 ⟨G.init, none, .none⟩ (.returns []) =
      (⟨G.init, none, .none⟩, .error ⟨.returnsNotMatch, [.returnsNotMatch 0 1]⟩) :=
  (first_returns_empty_rejected _ _ _ _ rfl (by decide)).1

/-! ## J. Interface callbacks with several wrong-sized slots; symbol names that are only a suffix of a real one -/

/-- interface.go `checkSignature`: with the counts right, **however many slots have the wrong size** (one, two, all of them)
    the report is the same typed chain `TraceableError → *IllegalParam → *IllegalParamType` — the chain always ENDS in a typed
    cause, never in a text-only error -/
theorem iface_size_mismatch_typed (m cb : Sig) (h1 : cb.ins.length = m.ins.length + 1) (h2 : cb.outs.length = m.outs.length)
    (hbad : ¬ (m.ins.map (·.size) = (cb.ins.drop 1).map (·.size) ∧ m.outs.map (·.size) = cb.outs.map (·.size))) :
    ifaceSignature m cb = .error ⟨.illegalParam, [.traceable, .illegalParam, .illegalParamType]⟩ := by
  cases hr : ifaceSignature m cb with
  | ok u => exact absurd ((ifaceSignature_ok_iff m cb).1 hr).2 hbad
  | error e =>
    have hge : ¬ (m.ins.length ≥ cb.ins.length) := by omega
    unfold ifaceSignature at hr
    rw [if_neg hge, if_neg (by simpa using h1), if_neg (by simpa using h2)] at hr
    split at hr
    · simp [pure, Except.pure] at hr
    · simp only [rej, Except.error.injEq] at hr; rw [← hr]

/-- non-vacuous: both the parameter and the result have the wrong size -/
example :
    let i : Ty := ⟨.int, 8, 25, false, 0⟩
    let c : Ty := ⟨.ptr, 8, idMockerICtx, false, 0⟩
    ifaceSignature ⟨[i], [i], false, i⟩ ⟨[c, ⟨.int, 4, 27, false, 0⟩], [⟨.strct, 16, 39, false, 0⟩], false, i⟩ =
      .error ⟨.illegalParam, [.traceable, .illegalParam, .illegalParamType]⟩ := rfl

/-- func.go:60 / mocker.go:414: a symbol name is looked up EXACTLY; a name the table does not contain — also one that is a
    path suffix of a real symbol (`tencent/goom.f` for `github.com/tencent/goom.f`) — is `known = false` and is rejected on
    every route (Apply and As, functions and methods), with nothing touched -/
theorem unknown_symbol_rejected_all_routes (form : ExportForm) (asCall : Bool) :
    ∃ e, exportCall form false false asCall = .error e ∧ e.cls = .symbolNotFound := by
  cases form <;> cases asCall <;> exact ⟨_, rfl, rfl⟩

end C13
