"""Shared machinery for the goom verification checks.

Everything a check needs that is not specific to one property: locating the trees, regenerating the Lean
`Gen` modules from goom's source, building and auditing the Lean proofs, building Go probes against the
current working tree with `go test -overlay` (no file is ever written into the repository), running the
model driver, comparing the two observation streams, known findings, replay files and evidence files.
"""
import hashlib
import json
import os
import re
import shutil
import subprocess
import sys
import time

VERIF = os.path.dirname(os.path.dirname(os.path.abspath(__file__)))
REPO = os.path.abspath(os.environ.get('GOOM_REPO', '/repo'))
BUILD = os.path.abspath(os.environ.get('VERIF_BUILD', os.path.join(VERIF, 'build')))
LEAN = os.path.join(VERIF, 'lean')
GEN_DIR = os.path.join(LEAN, 'GoomVerif', 'Gen')
HARNESS = os.path.join(VERIF, 'harness')
EVIDENCE = os.path.join(VERIF, 'evidence')
REPLAYS = os.path.join(VERIF, 'replays')
MODPATH = 'github.com/tencent/goom'
ALLOWED_AXIOMS = {'propext', 'Classical.choice', 'Quot.sound'}
NCPU = os.cpu_count() or 4

for d in (BUILD, EVIDENCE, REPLAYS, os.path.join(BUILD, 'home')):
    os.makedirs(d, exist_ok=True)


class Infra(Exception):
    """The machinery itself failed (not a statement about the property)."""


def log(*a):
    print(*a, file=sys.stderr, flush=True)


def sh(cmd, cwd=None, env=None, timeout=3600, input=None):
    """Run a command; returns (rc, stdout, stderr)."""
    p = subprocess.run(cmd, cwd=cwd, env=env, timeout=timeout, input=input, capture_output=True, text=True,
                       shell=isinstance(cmd, str))
    return p.returncode, p.stdout, p.stderr


# ------------------------------------------------------------------ PRNG (splitmix64; every random choice derives from VERIF_SEED)

class Rng:
    M = (1 << 64) - 1

    def __init__(self, seed):
        self.s = seed & self.M

    def next(self):
        self.s = (self.s + 0x9E3779B97F4A7C15) & self.M
        z = self.s
        z = ((z ^ (z >> 30)) * 0xBF58476D1CE4E5B9) & self.M
        z = ((z ^ (z >> 27)) * 0x94D049BB133111EB) & self.M
        return z ^ (z >> 31)

    def below(self, n):
        return self.next() % n

    def choice(self, xs):
        return xs[self.below(len(xs))]

    def chance(self, num, den):
        return self.below(den) < num

    def fork(self, tag):
        h = int.from_bytes(hashlib.sha256(f'{self.s}:{tag}'.encode()).digest()[:8], 'little')
        return Rng(h)


def seed():
    try:
        return int(os.environ.get('VERIF_SEED', '1'))
    except ValueError:
        return 1


# ------------------------------------------------------------------ Go side

# environment knobs that change what goom or the Go runtime/toolchain does: a check must decide the same thing
# whatever the caller's shell happens to export (a probe that needs one of these passes it through `extra`)
_SCRUB = ('GODEBUG', 'GOGC', 'GOMEMLIMIT', 'GOMAXPROCS', 'GOTRACEBACK', 'GOEXPERIMENT', 'GOARCH', 'GOOS', 'GOAMD64',
          'GO111MODULE', 'GOWORK', 'GOINSECURE', 'GOBIN', 'GORACE', 'GOCOVERDIR', 'CGO_CFLAGS', 'CGO_LDFLAGS',
          'GO_EXTLINK_ENABLED', 'GOLDFLAGS', 'GOGCCFLAGS')


def goenv(extra=None):
    e = {k: v for k, v in os.environ.items()
         if k not in _SCRUB and not (k.startswith('GOOM_') and k != 'GOOM_REPO')}
    e['GOWORK'] = 'off'
    e.update({'GOFLAGS': '-mod=mod', 'GOPROXY': 'off', 'GOSUMDB': 'off', 'GOTOOLCHAIN': 'local',
              'HOME': os.path.join(BUILD, 'home'), 'GOPATH': '/root/go', 'GOMODCACHE': '/root/go/pkg/mod',
              'GOCACHE': os.environ.get('GOCACHE', '/root/.cache/go-build'), 'CGO_ENABLED': os.environ.get('CGO_ENABLED', '1')})
    if extra:
        e.update(extra)
    return e


def goroot():
    rc, out, _ = sh(['go', 'env', 'GOROOT'], env=goenv())
    return out.strip()


def build_gen():
    out = os.path.join(BUILD, 'gen')
    src = os.path.join(VERIF, 'tools', 'gen')
    rc, o, e = sh(['go', 'build', '-o', out, '.'], cwd=src, env=goenv())
    if rc != 0:
        raise Infra('building tools/gen failed:\n' + e)
    return out


def regen(modules):
    """Regenerate the listed Gen modules from REPO. Returns (ok, message). Stale files are deleted first."""
    gen = build_gen()
    os.makedirs(GEN_DIR, exist_ok=True)
    changed = []
    tmp = os.path.join(BUILD, 'gen-out')
    shutil.rmtree(tmp, ignore_errors=True)
    os.makedirs(tmp)
    rc, o, e = sh([gen, '-repo', REPO, '-spec', os.path.join(VERIF, 'tools', 'gen', 'spec.json'), '-out', tmp,
                   '-only', ','.join(modules)])
    for m in modules:
        src = os.path.join(tmp, m + '.lean')
        dst = os.path.join(GEN_DIR, m + '.lean')
        if not os.path.exists(src):
            raise Infra(f'gen produced no output for {m}: {e}')
        new = open(src).read()
        old = open(dst).read() if os.path.exists(dst) else None
        if new != old:  # keep mtime when unchanged so lake does not rebuild
            open(dst, 'w').write(new)
            changed.append(m)
    return rc == 0, e.strip(), changed


def overlay_build(tag, pkg, files, extra_pkgs=None, race=False, tags=None, ldflags=None, gcflags='all=-l'):
    """Build a test binary for goom package `pkg` (import path relative to the module, '' = root) with the probe
    files `files` ({virtual file name: real path}) injected by -overlay.  `extra_pkgs` maps a virtual package
    directory (relative to the module root) to {virtual file name: real path}.  Returns the binary path."""
    repl = {}
    pdir = os.path.join(REPO, pkg) if pkg else REPO
    for vname, real in files.items():
        repl[os.path.join(pdir, vname)] = real
    for vdir, fmap in (extra_pkgs or {}).items():
        for vname, real in fmap.items():
            repl[os.path.join(REPO, vdir, vname)] = real
    ov = os.path.join(BUILD, f'{tag}.overlay.json')
    json.dump({'Replace': repl}, open(ov, 'w'), indent=1)
    out = os.path.join(BUILD, f'{tag}.test')
    if os.path.exists(out):
        os.remove(out)
    cmd = ['go', 'test', '-c', '-o', out, '-overlay', ov, '-vet=off']
    if gcflags:
        cmd.append('-gcflags=' + gcflags)
    if race:
        cmd.append('-race')
    if tags:
        cmd.append('-tags=' + tags)
    if ldflags:
        cmd.append('-ldflags=' + ldflags)
    cmd.append('./' + pkg if pkg else '.')
    rc, o, e = sh(cmd, cwd=REPO, env=goenv(), timeout=1200)
    if rc != 0 or not os.path.exists(out):
        return None, (o + e)
    return out, ''


def helper_pkgs():
    """Virtual helper packages every probe may import: zzverif/vh (protocol helpers) and the toolchain's own
    x86asm / arm64asm as independent reference decoders."""
    ref = os.path.join(BUILD, 'ref')
    gr = goroot()
    pk = {}
    for name, sub in (('refx86', 'x86/x86asm'), ('refarm64', 'arm64/arm64asm')):
        d = os.path.join(ref, name)
        srcd = os.path.join(gr, 'src/cmd/vendor/golang.org/x/arch', sub)
        os.makedirs(d, exist_ok=True)
        fm = {}
        for f in sorted(os.listdir(srcd)):
            if f.endswith('.go') and not f.endswith('_test.go'):
                dst = os.path.join(d, f)
                if not os.path.exists(dst):
                    shutil.copy(os.path.join(srcd, f), dst)
                fm[f] = dst
        extra = os.path.join(HARNESS, 'ref', name)
        if os.path.isdir(extra):
            for f in sorted(os.listdir(extra)):
                fm[f] = os.path.join(extra, f)
        pk['internal/zzverif/' + name] = fm
    vh = os.path.join(HARNESS, 'vh')
    pk['internal/zzverif/vh'] = {f: os.path.join(vh, f) for f in sorted(os.listdir(vh)) if f.endswith('.go')}
    return pk


def run_probe(binary, test, ops_path, out_path, env=None, timeout=1800, args=None, cwd=None):
    """Run one probe test of a test binary on an ops file; the probe writes `<line-number>\\t<observation>` lines."""
    if os.path.exists(out_path):
        os.remove(out_path)
    e = goenv({'VERIF_OPS': ops_path, 'VERIF_OUT': out_path, 'VERIF_SEED': str(seed())})
    if env:
        e.update(env)
    cmd = [binary, '-test.run', '^' + test + '$', '-test.count=1', '-test.timeout', f'{timeout}s'] + (args or [])
    rc, o, err = sh(cmd, env=e, timeout=timeout + 60, cwd=cwd or BUILD)
    return rc, o + err


def read_indexed(path, n):
    """Read `<idx>\\t<text>` lines into a list of length n (None where absent)."""
    res = [None] * n
    if not os.path.exists(path):
        return res
    for line in open(path, errors='replace'):
        line = line.rstrip('\n')
        if '\t' not in line:
            continue
        i, t = line.split('\t', 1)
        try:
            i = int(i)
        except ValueError:
            continue
        if 0 <= i < n:
            res[i] = t
    return res


# ------------------------------------------------------------------ Lean side

def lake(args, timeout=3600):
    rc, o, e = sh(['lake'] + args, cwd=LEAN, timeout=timeout)
    return rc, o + e


def mkmain():
    sh([sys.executable, os.path.join(VERIF, 'tools', 'mkmain.py')])


_LEAN_BLOCK_COMMENT = re.compile(r'/-.*?-/', re.S)
_LEAN_LINE_COMMENT = re.compile(r'--.*')
FORBIDDEN = re.compile(r'\bsorry\b|\badmit\b|^\s*axiom\s|native_decide|bv_decide|implemented_by|\bunsafe\s|maxHeartbeats\s+0\b|ofReduceBool', re.M)


def strip_lean_comments(src):
    return _LEAN_LINE_COMMENT.sub('', _LEAN_BLOCK_COMMENT.sub('', src))


def forbidden_scan():
    """grep the whole Lean tree (comments stripped) for escape hatches; returns list of 'file: token'."""
    hits = []
    for root, _, files in os.walk(LEAN):
        if '.lake' in root or '/scratch' in root:
            continue
        for f in files:
            if f.endswith('.lean'):
                src = strip_lean_comments(open(os.path.join(root, f)).read())
                for m in FORBIDDEN.finditer(src):
                    hits.append(f'{os.path.relpath(os.path.join(root, f), LEAN)}: {m.group(0).strip()}')
    return hits


_THM = re.compile(r'^\s*theorem\s+([A-Za-z_][\w\.\']*)', re.M)


def theorem_names(prop):
    """Names of the property theorems (Props/<prop>.lean, namespace <prop>)."""
    src = strip_lean_comments(open(os.path.join(LEAN, 'GoomVerif', 'Props', prop + '.lean')).read())
    return [f'{prop}.{n}' for n in _THM.findall(src)]


def prove(prop, extra_targets=(), leanchecker=False):
    """Build the property's theorems and audit their axioms.  Returns a dict:
       ok, obligations, discharged, failed (list of (theorem|module, reason)), axioms {thm: [..]}, cmds, output"""
    mkmain()
    res = {'ok': False, 'obligations': 0, 'discharged': 0, 'failed': [], 'axioms': {}, 'cmds': [], 'output': ''}
    names = theorem_names(prop)
    res['obligations'] = len(names)
    hits = forbidden_scan()
    if hits:
        res['failed'].append(('forbidden-token-scan', '; '.join(hits)))
    target = f'GoomVerif.Props.{prop}'
    cmd = ['build', target] + list(extra_targets)
    res['cmds'].append('cd lean && lake ' + ' '.join(cmd))
    rc, out = lake(cmd)
    res['output'] = out[-6000:]
    if rc != 0:
        bad = sorted(set(re.findall(r'error: (\S+\.lean):(\d+):\d+', out)))
        res['failed'].append((target, 'lake build failed at ' + ', '.join(f'{f}:{l}' for f, l in bad[:8]) if bad else 'lake build failed'))
        res['build_errors'] = bad
        return res
    adir = os.path.join(BUILD, 'audit')
    os.makedirs(adir, exist_ok=True)
    af = os.path.join(adir, prop + '.lean')
    open(af, 'w').write(f'import GoomVerif.Props.{prop}\n' + ''.join(f'#print axioms {n}\n' for n in names))
    res['cmds'].append(f'cd lean && lake env lean {os.path.relpath(af, LEAN)}   # #print axioms for every theorem')
    rc, out = lake(['env', 'lean', af])
    if rc != 0:
        res['failed'].append(('axiom-audit', out[-2000:]))
        return res
    out1 = out.replace('\n ', ' ')
    for n in names:
        m = re.search(r"'" + re.escape(n) + r"' (depends on axioms: \[([^\]]*)\]|does not depend on any axioms)", out1)
        if not m:
            res['failed'].append((n, 'no #print axioms output'))
            continue
        ax = [a.strip() for a in (m.group(2) or '').replace('\n', ' ').split(',') if a.strip()]
        res['axioms'][n] = ax
        badax = [a for a in ax if a not in ALLOWED_AXIOMS]
        if badax:
            res['failed'].append((n, 'non-standard axioms: ' + ', '.join(badax)))
        else:
            res['discharged'] += 1
    if leanchecker:
        res['cmds'].append(f'cd lean && lake env leanchecker {target}')
        rc, out = lake(['env', 'leanchecker', target], timeout=3600)
        if rc != 0:
            res['failed'].append(('leanchecker', out[-2000:]))
    res['ok'] = not res['failed'] and res['discharged'] == res['obligations'] and res['obligations'] > 0
    return res


def build_driver():
    mkmain()
    rc, out = lake(['build', 'goomdrv'])
    exe = os.path.join(LEAN, '.lake', 'build', 'bin', 'goomdrv')
    if rc != 0 or not os.path.exists(exe):
        return None, out[-6000:]
    return exe, ''


def run_driver(exe, ops_path, out_path, timeout=3600):
    with open(ops_path) as fi, open(out_path, 'w') as fo:
        p = subprocess.run([exe], stdin=fi, stdout=fo, stderr=subprocess.PIPE, timeout=timeout)
    if p.returncode != 0:
        raise Infra('goomdrv failed: ' + p.stderr.decode(errors='replace')[-2000:])
    return [l.rstrip('\n') for l in open(out_path)]


# ------------------------------------------------------------------ findings, replays, evidence

def known_findings(prop):
    p = os.path.join(VERIF, 'KNOWN_FINDINGS.jsonl')
    out = []
    if os.path.exists(p):
        for line in open(p):
            line = line.strip()
            if line.startswith('{'):
                r = json.loads(line)
                if r.get('property') == prop:
                    out.append(r)
    return out


def write_replay(prop, body):
    s = seed()
    n = 0
    while True:
        path = os.path.join(REPLAYS, f'{prop}-{s}-{n}.json')
        if not os.path.exists(path):
            break
        n += 1
    body = dict(body)
    body.setdefault('property', prop)
    body.setdefault('seed', s)
    body.setdefault('repo', REPO)
    json.dump(body, open(path, 'w'), indent=1, default=str)
    return path


class Outcome:
    """Collects what a run saw; decides the exit status and writes evidence."""

    def __init__(self, prop, tier):
        self.prop, self.tier = prop, tier
        self.t0 = time.time()
        self.violations = []      # (replay body, no_input_found)
        self.known_hits = {}      # finding id -> text
        self.coverage = {}
        self.assumptions = []
        self.level = 'proof'

    def violation(self, what, replay, no_failing_input=False, key=None):
        """Report a violation unless it matches a known finding (match on `key`)."""
        if key is not None:
            for kf in known_findings(self.prop):
                if kf.get('status') == 'known' and kf.get('match', {}).get('key') == key:
                    self.known_hits[kf['id']] = kf.get('what', what)
                    return
        body = dict(replay)
        body['what'] = what
        self.violations.append((body, no_failing_input))

    def finish(self):
        wall = time.time() - self.t0
        ev = {'property_id': self.prop, 'tier': self.tier, 'seed': seed(), 'level': self.level,
              'coverage': self.coverage, 'assumptions': self.assumptions, 'wall_s': round(wall, 2),
              'violations': len(self.violations)}
        os.makedirs(EVIDENCE, exist_ok=True)
        json.dump(ev, open(os.path.join(EVIDENCE, self.prop + '.json'), 'w'), indent=1, default=str)
        for fid, what in sorted(self.known_hits.items()):
            print(f'KNOWN-FINDING: property={self.prop} {fid} {what}')
        if not self.violations:
            print(f'OK property={self.prop} tier={self.tier} wall={wall:.1f}s')
            return 0
        # at most a few lines; each with its own replay file
        for body, nofi in self.violations[:5]:
            path = write_replay(self.prop, body)
            tail = ' no-failing-input-found' if nofi else ''
            print(f'VIOLATION property={self.prop} replay={path}{tail}')
        return 1


def diff_streams(ops, impl, model, limit=20):
    """Compare the implementation's and the model's observation per op. Returns list of (idx, op, impl, model)."""
    bad = []
    for i, op in enumerate(ops):
        a = impl[i] if i < len(impl) else None
        b = model[i] if i < len(model) else None
        if a != b:
            bad.append((i, op, a, b))
            if len(bad) >= limit:
                break
    return bad
